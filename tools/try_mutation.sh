#!/bin/bash
# usage: tools/try_mutation.sh <patch.diff> <tier> <check>...  - applies the patch to /repo, runs the checks, always reverts.
set -u
patch=$1; tier=$2; shift 2
cd /repo || exit 2
if ! git diff --quiet; then echo "/repo has uncommitted changes - refusing"; exit 2; fi
git apply "$patch" || { echo "patch does not apply"; exit 2; }
trap 'git -C /repo checkout -- . ' EXIT
cd /verif
for c in "$@"; do
  out=$(./run $c --tier $tier 2>&1); rc=$?
  echo "--- $c rc=$rc"
  echo "$out" | grep -E "VIOLATION|signature|INCONCLUSIVE|Traceback" | head -6
  echo "$out" | tail -1
done
