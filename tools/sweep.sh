#!/bin/bash
# usage: tools/sweep.sh <tier> <seed>...   - runs every check at the given seeds, prints anything that is not "held"
tier=$1; shift
cd "$(dirname "$0")/.."
for s in "$@"; do
  for c in C01 C02 C03 C04 C05 C06 C07 C08 C09 C10 C11 C12 C13 C14 C15 C16 C17 C18 C19 C20; do
    out=$(VERIF_SEED=$s ./run $c --tier $tier 2>&1); rc=$?
    if [ $rc -ne 0 ]; then echo "== seed=$s $c rc=$rc"; echo "$out" | grep -E "VIOLATION|signature|INCONCLUSIVE|Traceback|Error" | head -8; fi
    echo "$out" | tail -1 | sed "s/^/[seed $s] /"
  done
done
