#!/usr/bin/env python3
"""Maintenance: (re)create findings/<witness>.json for every open finding by running its check with the findings
list ignored and copying the replay whose signature matches. Not used by any registered command."""
import glob, json, os, shutil, subprocess, sys
HERE = os.path.dirname(os.path.dirname(os.path.abspath(__file__)))
sys.path.insert(0, HERE)
from vlib import common
fs = [f for f in common.load_findings() if f.state == "open"]
props = sorted({f.prop for f in fs})
seeds = sys.argv[1:] or ["1", "2", "3"]
missing = {f.sig: f for f in fs}
for prop in props:
    for seed in seeds:
        if not any(f.prop == prop for f in missing.values()):
            break
        env = dict(os.environ, VERIF_IGNORE_FINDINGS="1", VERIF_SEED=seed)
        subprocess.run([os.path.join(HERE, "run"), prop, "--tier", "quick"], env=env, stdout=subprocess.DEVNULL, stderr=subprocess.DEVNULL, cwd=HERE)
        for rp in glob.glob(os.path.join(HERE, "replays", f"{prop}-quick-{seed}-*.json")):
            d = json.load(open(rp))
            f = missing.get(d["signature"])
            if f and f.prop == prop:
                shutil.copy(rp, os.path.join(HERE, f.witness))
                print("witness", f.fid, "<-", os.path.basename(rp))
                del missing[d["signature"]]
print("still missing:", [f.fid for f in missing.values()])
