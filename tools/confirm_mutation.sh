#!/bin/bash
# usage: tools/confirm_mutation.sh <worktree> <mutation dir>
# Confirms independently, in the scratch worktree: (1) with the patch the pinned suite passes, (2) the demo fails with the patch, (3) the demo passes without it.
wt=$1; m=$2
cd "$wt" || exit 2
T=$(mktemp -d /tmp/confirm.XXXXXX); trap 'rm -rf "$T"' EXIT
git checkout -q -- . ; rm -f o2o-tests/tests/zz_demo.rs
style=integ; grep -q "quote!\|parse_quote" "$m/demo.rs" && style=unit
run_demo() {
  if [ $style = integ ]; then
    cp "$m/demo.rs" o2o-tests/tests/zz_demo.rs
    cargo nextest run --workspace --offline -E 'binary(zz_demo)' --no-fail-fast >$T/demo.out 2>&1; rc=$?
    rm -f o2o-tests/tests/zz_demo.rs
  else
    cp o2o-impl/src/tests.rs $T/tests.rs.bak
    cat "$m/demo.rs" >> o2o-impl/src/tests.rs
    names=$(grep -oE "fn [a-z0-9_]+\(" "$m/demo.rs" | sed "s/fn //; s/(//" | head -5 | tr '\n' ' ')
    cargo nextest run -p o2o-impl --features syn --offline --no-fail-fast $names >$T/demo.out 2>&1; rc=$?
    cp $T/tests.rs.bak o2o-impl/src/tests.rs
  fi
  return $rc
}
run_demo; d0=$?
git apply "$m/patch.diff" || { echo "patch does not apply"; exit 2; }
cargo nextest run --workspace --no-fail-fast --test-threads 8 --offline > $T/suite.out 2>&1; s1=$?
suite=$(grep -E "tests run" $T/suite.out | tail -1)
run_demo; d1=$?
git checkout -q -- .
echo "style=$style demo_without_patch_rc=$d0 suite_with_patch_rc=$s1 [$suite] demo_with_patch_rc=$d1"
if [ $d0 -eq 0 ] && [ $s1 -eq 0 ] && [ $d1 -ne 0 ]; then echo CONFIRMED; else echo NOT_CONFIRMED; tail -5 $T/demo.out; fi
