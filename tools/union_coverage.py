"""Reporting only (DESIGN 8.5): runs every check of one tier in-process, records every derive input they produce, and measures the
source-region coverage of o2o-impl over the union. usage: python3 tools/union_coverage.py [quick]; output under /tmp/o2o-union-cov."""
import sys, os, json, re, subprocess, tempfile, importlib
sys.path.insert(0,'/verif')
os.environ['VERIF_WORK']='/tmp/o2o-union-cov/work'; os.environ['VERIF_OUT']='/tmp/o2o-union-cov/out'
from vlib import common, cov, rt
ALL=[]
orig_run_x=common.run_x
def rec_run_x(srcs,*a,**k):
    ALL.extend(srcs); return orig_run_x(srcs,*a,**k)
common.run_x=rec_run_x
orig_sh=rt.run_sharded
def rec_sh(name,cases,*a,**k):
    texts=[]
    for c in cases:
        m=c.meta
        inp=getattr(m,'inputs',None)
        if isinstance(inp,dict): texts+=list(inp.values())
        elif getattr(m,'input',None): texts.append(m.input)
        elif c.input_text: texts.append(c.input_text)
    ALL.extend(cov.derive_inputs(texts)); return orig_sh(name,cases,*a,**k)
rt.run_sharded=rec_sh
tier=sys.argv[1] if len(sys.argv)>1 else 'quick'
for i in range(1,21):
    mod=importlib.import_module(f'checks.c{i:02d}')
    for name in dir(mod):
        pass
    try:
        mod.run(tier)
    except SystemExit: pass
    except Exception as e: print('check',i,'error',repr(e)[:200])
    print('after C%02d: %d inputs'%(i,len(ALL)),flush=True)
srcs=list(dict.fromkeys(ALL))
print(len(srcs),'distinct inputs')
tgt=os.path.join(common.WORK,"tgt-cov"); crate=common.harness_dir("xdrv")
ok,out=common.cargo_build(crate,tgt,extra=["--features","s1"],toolchain="nightly",rustflags="-Cinstrument-coverage")
assert ok,out[-500:]
binary=os.path.join(tgt,"release/xdrv")
td=tempfile.mkdtemp(dir='/tmp/o2o-union-cov')
profs=[]
N=14
procs=[]
for k in range(N):
    part=os.path.join(td,f"in{k}.jsonl")
    with open(part,"w") as f:
        for i,s in list(enumerate(srcs))[k::N]: f.write(json.dumps({"id":i,"src":s,"notext":True})+"\n")
    prof=os.path.join(td,f"p{k}.profraw")
    procs.append(subprocess.Popen([binary],stdin=open(part),stdout=subprocess.DEVNULL,stderr=subprocess.DEVNULL,env=dict(os.environ,LLVM_PROFILE_FILE=prof)))
    profs.append(prof)
for p in procs: p.wait()
merged=os.path.join(td,"m.profdata")
subprocess.run([os.path.join(cov.NIGHTLY_BIN,"llvm-profdata"),"merge","-sparse","-o",merged]+[p for p in profs if os.path.exists(p)],check=True)
p=subprocess.run([os.path.join(cov.NIGHTLY_BIN,"llvm-cov"),"show","-instr-profile",merged,binary,"--ignore-filename-regex",r"(\.cargo|rustc|harness)","--show-line-counts-or-regions"],stdout=subprocess.PIPE)
open('/tmp/o2o-union-cov/show2.txt','wb').write(p.stdout)
p=subprocess.run([os.path.join(cov.NIGHTLY_BIN,"llvm-cov"),"report","-instr-profile",merged,binary,"--ignore-filename-regex",r"(\.cargo|rustc|harness)"],stdout=subprocess.PIPE)
print(p.stdout.decode()[-2200:])
