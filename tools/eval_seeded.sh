#!/bin/bash
# usage: tools/eval_seeded.sh <tier> <parallel> [<seeded dir>...]
# Runs every check against every seeded change, each on its own scratch copy of /repo (never /repo itself), <parallel> at a time.
# Appends one line per change to seeded/RESULTS-<tier>.tsv.
tier=$1; par=$2; shift 2
cd /verif
dirs=${@:-$(ls -d seeded/C*-[mnpqrstuvw]*)}
# the checks run from a snapshot of /verif's HEAD, so that editing /verif meanwhile does not disturb the evaluation
snap=/tmp/evalsnap-$$
git -C /verif worktree add -q --detach $snap HEAD || exit 2
trap 'git -C /verif worktree remove --force $snap' EXIT
export snap
one() {
  d=$1; tier=$2; id=$(basename $d)
  scratch=/tmp/evalseed-$id
  rm -rf $scratch; mkdir -p $scratch
  git -C /repo worktree add -q --detach $scratch/repo HEAD || exit 2
  cp /repo/Cargo.lock $scratch/repo/ 2>/dev/null
  git -C $scratch/repo apply /verif/$d/patch.diff || { echo -e "$id\tPATCH_DOES_NOT_APPLY"; git -C /repo worktree remove --force $scratch/repo; rm -rf $scratch; return; }
  line="$id"
  for c in C01 C02 C03 C04 C05 C06 C07 C08 C09 C10 C11 C12 C13 C14 C15 C16 C17 C18 C19 C20; do
    out=$(cd $snap && O2O_REPO=$scratch/repo VERIF_WORK=$scratch/work VERIF_OUT=$scratch/out ./run $c --tier $tier 2>&1); rc=$?
    sigs=$(echo "$out" | grep "signature:" | head -2 | sed 's/.*signature: //' | tr '\n' ';')
    if [ $rc -eq 1 ]; then line="$line\t$c:VIOLATION[$sigs]"; elif [ $rc -eq 2 ]; then line="$line\t$c:INCONCLUSIVE"; fi
  done
  git -C /repo worktree remove --force $scratch/repo
  rm -rf $scratch
  echo -e "$line"
}
export -f one
printf "%s\n" $dirs | xargs -P $par -I{} bash -c "one {} $tier" >> seeded/RESULTS-$tier.tsv
sort -o seeded/RESULTS-$tier.tsv seeded/RESULTS-$tier.tsv
