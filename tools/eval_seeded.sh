#!/bin/bash
# usage: tools/eval_seeded.sh <tier> [<seeded dir>...] - runs every check against every seeded change; writes seeded/RESULTS-<tier>.tsv
tier=$1; shift
cd /verif
dirs=${@:-$(ls -d seeded/C*-m*)}
for d in $dirs; do
  id=$(basename $d)
  cd /repo; if ! git diff --quiet; then echo "/repo dirty"; exit 2; fi
  git apply /verif/$d/patch.diff || { echo "$id patch does not apply"; continue; }
  cd /verif
  line="$id"
  for c in C01 C02 C03 C04 C05 C06 C07 C08 C09 C10 C11 C12 C13 C14 C15 C16 C17 C18 C19 C20; do
    out=$(./run $c --tier $tier 2>&1); rc=$?
    sigs=$(echo "$out" | grep "signature:" | head -2 | sed 's/.*signature: //' | tr '\n' ';')
    if [ $rc -eq 1 ]; then line="$line\t$c:VIOLATION[$sigs]"; elif [ $rc -eq 2 ]; then line="$line\t$c:INCONCLUSIVE"; fi
  done
  git -C /repo checkout -- .
  echo -e "$line" | tee -a seeded/RESULTS-$tier.tsv
done
