#!/usr/bin/env python3
"""Regenerates the table of DESIGN.md §8.4 from seeded/*/meta.json and seeded/RESULTS-quick.tsv."""
import json, os, re, glob
HERE = os.path.dirname(os.path.dirname(os.path.abspath(__file__)))
res = {}
p = os.path.join(HERE, "seeded/RESULTS-quick.tsv")
if os.path.exists(p):
    for l in open(p):
        f = l.rstrip("\n").split("\t")
        res[f[0]] = [c.split(":")[0] for c in f[1:] if "VIOLATION" in c]
rows = []
neutral = set()
for d in sorted(glob.glob(os.path.join(HERE, "seeded/C*-[a-z][0-9]"))):
    i = os.path.basename(d)
    m = json.load(open(os.path.join(d, "meta.json")))
    summ = re.sub(r"\s+", " ", str(m.get("summary", ""))).replace("|", "/")
    needs = re.sub(r"\s+", " ", str(m.get("needs", ""))).replace("|", "/")
    caught = res.get(i)
    own = i.split("-")[0]
    c = "not evaluated" if caught is None else (", ".join(caught) if caught else "**missed**")
    note = os.path.join(d, "NOTE.txt")
    if os.path.exists(note) and not caught:
        c = "not a breaking change any more (see seeded/%s/NOTE.txt)" % i
        neutral.add(i)
    rows.append(f"| {i} | {summ[:170]} | {needs[:150]} | {c} |")
tbl = "| change | what was changed | needs, to manifest | quick checks that report a VIOLATION |\n|---|---|---|---|\n" + "\n".join(rows)
n = len(rows)
ncaught = sum(1 for i in res if res[i])
nown = sum(1 for i in res if i.split("-")[0] in res[i])
tbl += f"\n\n{ncaught} of {len(res) - len(neutral)} evaluated breaking changes are reported by at least one quick check, {nown} by the check of the property they were written against" + (f"; {len(neutral)} change(s) stopped being breaking after a repair of /repo" if neutral else "") + ".\n"
dp = os.path.join(HERE, "DESIGN.md")
s = open(dp).read()
a = s.index("<!-- SEEDED_TABLE_BEGIN -->") if "<!-- SEEDED_TABLE_BEGIN -->" in s else None
if a is None:
    s = s.replace("SEEDED_TABLE_PLACEHOLDER", "<!-- SEEDED_TABLE_BEGIN -->\n" + tbl + "<!-- SEEDED_TABLE_END -->")
else:
    b = s.index("<!-- SEEDED_TABLE_END -->")
    s = s[:a] + "<!-- SEEDED_TABLE_BEGIN -->\n" + tbl + s[b:]
open(dp, "w").write(s)
print(ncaught, len(res), nown)
