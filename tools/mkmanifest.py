#!/usr/bin/env python3
"""Regenerates MANIFEST.json from the table below (keeps it schema-valid at all times)."""
import json, os
HERE = os.path.dirname(os.path.dirname(os.path.abspath(__file__)))
props = [json.loads(l) for l in open(os.path.join(HERE, "properties.jsonl"))]
ids = [p["id"] for p in props]

CLAIMED = {
    # id: (category, technique, text, note, design_ref)
}
exec(open(os.path.join(HERE, "tools/claims.py")).read())

checks = []
for i in ids:
    if i in CLAIMED:
        cat, tech, text, note, ref = CLAIMED[i]
        checks.append({
            "property_id": i,
            "quick_cmd": f"./run {i} --tier quick",
            "thorough_cmd": f"./run {i} --tier thorough",
            "evidence_file": f"evidence/{i}.json",
            "replay_cmd_template": "./run --replay {path}",
            "engine": "o2o-runtime-monitors",
            "level_claimed": {"category": cat, "text": text, "design_ref": ref},
            "level_note": note,
            "technique": tech,
        })
na = [{"property_id": i, "reason": NOT_APPLICABLE.get(i, "check not built yet in this framework (runtime monitoring applies; see DESIGN.md §5)")} for i in ids if i not in CLAIMED]
m = {
    "version": 1,
    "setup_cmd": "./run --setup",
    "hooks": {
        "guard": "--cfg o2o_verif",
        "enable": "no source hooks are needed: every monitor observes a public boundary (o2o_impl::expand::derive, the derive macro, the generated impls); RUSTFLAGS='--cfg o2o_verif' is reserved for future hooks",
        "baseline_off_cmd": "cd /repo && cargo nextest run --workspace --no-fail-fast --test-threads 8 --offline",
        "source_commits": [],
        "add_only": True,
    },
    "engines": [{"name": "o2o-runtime-monitors", "path": "run", "serves_properties": sorted(CLAIMED),
                 "kind_free_text": "runtime monitoring: level X = o2o_impl::expand::derive driven in-process (syn1 and syn2 builds) under catch_unwind with token/diagnostic observers; level R = crates compiled with the real proc-macro, event log of every conversion checked offline against generator-written reference functions"}],
    "checks": checks,
    "notes": NOTES,
    "not_applicable": na,
}
json.dump(m, open(os.path.join(HERE, "MANIFEST.json"), "w"), indent=1)
print("claimed:", sorted(CLAIMED), "not claimed:", [x["property_id"] for x in na])
