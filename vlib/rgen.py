"""Level-R generator, struct family (C01 / C07 / C08 reuse it): a *semantic spec* first, from which are rendered,
independently of each other, (1) the derive input, (2) hand-style reference conversions that never go through o2o,
(3) the driver code that runs every requested conversion on seeded random values and logs events.

Documented-valid domain only (DESIGN Appendix A); each cell cites its precedent in CELLS.
"""
from checks.c05 import MI, predict
from .model import Instr, Field, Item, KINDS, FALLIBLE_NAME, TRAIT_SHORT, render_attrs

NUM = ["i8", "i16", "i32", "i64", "u8", "u16", "u32"]
LEAVES = NUM + ["bool", "char", "String"]
CELLS = {
    "named->named": "README 'Different member name'; tests 2,6,7",
    "named->tuple_brace": "README 'Tuple structs' (second example)",
    "named->tuple_pos": "tests 8,13 (as ())",
    "named->bare_tuple": "README 'Tuples'; test 22",
    "tuple->tuple": "README 'Tuple structs'; tests 10,12",
    "tuple->named": "README 'Type hints'; tests 8,13",
    "tuple->bare_tuple": "expands positionally like tuple->tuple",
    "ghosts->unit": "test 38 struct2unit/tuple2unit",
    "unit->named": "test 38 unit2struct",
    "unit->tuple": "test 38 unit2tuple",
    "unit->unit": "C01 statement: unit counterparts with or without hints",
}
COVERS = [["map"], ["map"], ["from", "into"], ["map_owned", "map_ref"], ["from_owned", "from_ref", "owned_into", "ref_into"], ["from", "owned_into", "ref_into"],
          ["from_owned", "from_ref", "into"], ["map_owned", "from_ref", "ref_into"]]
EXTRA_EXISTING = [[], [], ["into_existing"], ["owned_into_existing"], ["ref_into_existing"], ["owned_into_existing", "ref_into_existing"]]


def rnd_expr(ty, k, x):
    """Rust expression applying the marker constant k to x, for leaf type ty"""
    if ty in NUM:
        # the placeholder also sits inside bracket- and parenthesis-delimited groups (substitution has to descend into every delimiter)
        if k % 3 == 0:
            return f"[{x}][0].wrapping_add({k % 100 + 1})"
        if k % 3 == 1:
            return f"({x}).wrapping_add({k % 100 + 1})"
        return f"{x}.wrapping_add({k % 100 + 1})"
    if ty == "bool":
        return f"({x} ^ {'true' if k % 2 else 'false'})"
    if ty == "char":
        return f"(if {x} == 'q' {{ 'z' }} else {{ {x} }})" if k % 2 else f"{x}"
    return f'format!("{{}}_{k}", {x})'


def rng_call(ty):
    return {"String": "r.string()"}.get(ty, f"r.{ty}()")


def const_of(ty, k):
    if ty in NUM:
        return str(k % 100 + 1)
    if ty == "bool":
        return "true" if k % 2 else "false"
    if ty == "char":
        return "'" + "abcdefgh"[k % 8] + "'"
    return f'String::from("g{k}")'


class SFld:
    def __init__(self, name, ty):
        self.name = name          # ident or int index
        self.ty = ty
        self.ghost = None         # None | dict(owned=K, ref=K, names=[..])
        self.t = None             # linked T field (TFld) when mapped
        self.mis = []             # member instructions (MI with .k marker) realising an expr designation
        self.member_attr = None   # member (ident/index) written in instructions, None = omitted
        self.as_type = False
        self.desig = "same"
        self.chk = None           # id of a fallible check expression `chk(~, id)?`
        self.extra_attrs = []


class TFld:
    def __init__(self, name, ty):
        self.name = name
        self.ty = ty
        self.src = None           # SFld or None
        self.ghost = None         # dict(owned=K, ref=K) for T-only fields provided by #[ghosts]
        self.untouched = False    # T-only field with no ghosts entry (from / into_existing only)


class StructCase:
    pass


def gen_struct_case(g, cid, opts=None):
    """returns a StructCase with .code(fallible) -> (module source, conversions list) etc."""
    opts = opts or {}
    r = g.r
    sc = StructCase()
    sc.cid = cid
    cell = opts.get("cell") or g.pick(["named->named"] * 4 + ["named->tuple_brace", "named->tuple_pos", "named->bare_tuple", "tuple->tuple", "tuple->tuple", "tuple->named", "tuple->named",
                                        "tuple->bare_tuple", "ghosts->unit", "unit->named", "unit->tuple", "unit->unit"])
    sc.cell = cell
    s_shape, t_kind = cell.split("->")
    if s_shape == "ghosts":
        s_shape = r.choice(["named", "tuple"])
    sc.s_shape = s_shape
    sc.t_kind = t_kind  # named | tuple_brace | tuple_pos | tuple | bare_tuple | unit
    positional = t_kind in ("tuple_pos", "bare_tuple", "tuple")
    t_named = t_kind == "named"
    sc.hint = None
    if cell == "named->named":
        sc.hint = r.choice([None, None, "{}"])
    elif cell == "named->tuple_pos":
        sc.hint = "()"
    elif cell == "tuple->tuple":
        sc.hint = r.choice([None, "()"])
    elif cell == "tuple->named":
        sc.hint = "{}"
    elif cell == "ghosts->unit":
        sc.hint = "Unit"
    elif cell == "unit->named":
        sc.hint = "{}"
    elif cell == "unit->tuple":
        sc.hint = "()"
    elif cell == "unit->unit":
        sc.hint = r.choice([None, "Unit"])
    sc.existing_only = opts.get("existing_only", False) or (t_named and s_shape == "named" and g.chance(0.15))
    if cell in ("unit->named", "unit->tuple") and not opts.get("existing_only", False) and g.chance(0.35):
        # without a hint only From and IntoExisting can be requested (Into could not know the counterpart's form): the struct-level ghosts still have to be written
        sc.existing_only, sc.hint = True, None
    sc.flags = set()
    # ---- fields
    nf = 0 if s_shape == "unit" else r.randint(1, opts.get("max_fields", 7))
    sf = []
    leaves = opts.get("leaves") or LEAVES
    sc.leaves = leaves
    for i in range(nf):
        sf.append(SFld(f"f{i}" if s_shape == "named" else i, r.choice(leaves)))
    tf = []
    if cell.startswith("ghosts->") or t_kind == "unit":
        for f in sf:
            f.desig = "ghost"
    else:
        nghost = 0
        for f in sf:
            roll = r.random()
            if roll < 0.12 and len(sf) > 1 and nghost < len(sf) - 1:
                f.desig = "ghost"
                nghost += 1
            elif roll < 0.3:
                f.desig = "rename"
            elif roll < 0.6:
                f.desig = "expr"
            elif roll < 0.7 and f.ty in NUM:
                f.desig = "as_type"
        if positional and any(f.desig == "ghost" for f in sf):
            # keep S-only fields last so that position == index without explicit indices (README precedents)
            sf.sort(key=lambda f: f.desig == "ghost")
            if opts.get("ghost_not_last") and len(sf) >= 2:
                # region 'positional_ghost_not_last': an S-only member precedes mapped members. "Same position" is read as the member's own index
                # (what From and into_existing do, and what repair 6724979 made the post-init Into do): the counterpart keeps a slot at the S-only
                # member's index, filled by a #[ghosts(i: {..})] entry
                k = r.randrange(sum(1 for f in sf if f.desig != "ghost"))
                sf.insert(k, sf.pop())
                sc.flags.add("positional_ghost_not_last")
                if g.chance(0.8):
                    for f in sf:
                        f.ty = "i32"
                        if f.desig == "as_type":
                            f.desig = "same"
            for i, f in enumerate(sf):
                f.name = f"f{i}" if s_shape == "named" else i
    mapped = [f for f in sf if f.desig != "ghost"]
    # ---- counterpart fields
    if t_named:
        for f in mapped:
            if s_shape == "tuple" or f.desig in ("rename",) or (f.desig in ("expr", "as_type") and g.chance(0.5)):
                tn = f"t{g.mark()}"
                f.member_attr = tn
            else:
                tn = f.name
            t = TFld(tn, f.ty)
            tf.append(t)
        r.shuffle(tf)
        for f, t in zip(mapped, sorted(tf, key=lambda t: 0)):
            pass
        # link by name
        byname = {t.name: t for t in tf}
        for f in mapped:
            f.t = byname[f.member_attr if f.member_attr is not None else f.name]
            f.t.src = f
    elif t_kind == "tuple_brace":
        perm = list(range(len(mapped)))
        r.shuffle(perm)
        tf = [None] * len(mapped)
        for f, p in zip(mapped, perm):
            f.member_attr = p
            t = TFld(p, f.ty)
            t.src = f
            f.t = t
            tf[p] = t
    elif positional:
        permuted = opts.get("permuted", False) and len(mapped) >= 2 and "positional_ghost_not_last" not in sc.flags
        order = list(range(len(mapped)))
        if permuted:
            while order == list(range(len(mapped))):
                r.shuffle(order)
            sc.flags.add("positional_permuted")
            if g.chance(0.8):
                # same leaf type everywhere: the mis-wired Into (finding F31) still compiles, so the From and into_existing
                # conversions of the same program - which honour the index - stay checked
                for f in mapped:
                    f.ty = "i32"
                    if f.desig == "as_type":
                        f.desig = "rename"
        tf = [None] * len(mapped)
        if "positional_ghost_not_last" in sc.flags:
            order = [sf.index(f) for f in mapped]
            tf = [None] * (max(order) + 1)
        for f, p in zip(mapped, order):
            t = TFld(p, f.ty)
            t.src = f
            f.t = t
            tf[p] = t
            # explicit index: required on a named S (README 'Tuples'), optional on a tuple S when position == index
            if s_shape == "named" and (t_kind == "bare_tuple" or f.desig in ("rename", "expr", "as_type") or permuted or f.ty == "String"):
                f.member_attr = p   # any instruction on a named field mapped to a positional counterpart has to name the index
            elif s_shape == "tuple" and (permuted or (f.desig == "rename")):
                f.member_attr = p
            if f.desig == "rename" and f.member_attr is None:
                f.desig = "same"
    # as_type: counterpart field has another numeric type
    for f in mapped:
        if f.desig == "as_type":
            f.as_type = True
            f.t.ty = r.choice([x for x in NUM if x != f.ty])
    # counterpart slots at the index of an S-only member (region positional_ghost_not_last): supplied by a struct-level ghosts entry
    for i, t in enumerate(tf):
        if t is None:
            k = g.mark()
            tf[i] = TFld(i, sf[i].ty)
            tf[i].ghost = dict(owned=k, ref=k, split=False)
    # T-only fields
    if t_kind != "unit" and t_kind != "tuple_brace":
        n_only = r.choice([0, 0, 1, 2]) if sf else r.randint(1, 3)
        for j in range(n_only):
            k = g.mark()
            t = TFld(f"g{k}" if t_named else len(tf), r.choice(leaves))
            if sc.existing_only and g.chance(0.6) and sf:
                t.untouched = True
            else:
                split = g.chance(0.35) and not opts.get("uniform")
                t.ghost = dict(owned=k, ref=(g.mark() if split else k), split=split)
            tf.append(t)
    sc.sf, sc.tf = sf, tf
    # ---- member instructions for expr fields
    for f in mapped:
        if f.desig != "expr":
            continue
        uniform = opts.get("uniform")
        cover = ["map"] if uniform else list(g.pick(COVERS)) + list(g.pick(EXTRA_EXISTING))
        f.mis = [MI(nm, None, g.mark()) for nm in cover]
        if g.chance(0.3) and not uniform:
            # a more specific fallible instruction next to the infallible one
            base = g.pick([c for c in cover if "existing" not in c])   # member-level try_*_into_existing instructions do not exist (21 mapping names)
            mi = MI(FALLIBLE_NAME[base], None, g.mark())
            if not any(mi.slots & m.slots for m in f.mis):
                f.mis.append(mi)
                # the statement leaves one order open (fallible into_existing with both a try_into-class and an into-class instruction): not generated
                if any(len(predict(f.mis, k, fl, None)) > 1 for k in KINDS for fl in (False, True)):
                    f.mis.pop()
        r.shuffle(f.mis)
        f.expr_form = r.choice(["tilde", "tilde", "at", "braced"])
    for f in sf:
        if f.desig == "ghost":
            split = g.chance(0.35) and not opts.get("uniform")
            k = g.mark()
            f.ghost = dict(owned=k, ref=(g.mark() if split else k), split=split)
    # one fallible check (C07): `chk(~, id)?` on an i32 field that has no other expression
    sc.chk = None
    if opts.get("chk") and not sc.existing_only:
        cands = [f for f in mapped if f.desig in ("same", "rename") and f.ty == "i32" and f.t.ty == "i32"]
        if cands:
            f = r.choice(cands)
            f.chk = g.mark()
            sc.chk = f
            if positional and s_shape == "named":
                f.member_attr = f.t.name
    sc.name_T = "T"
    return sc


# ---------------------------------------------------------------------------------------------------------------
# rendering

def _member_txt(f):
    return None if f.member_attr is None else str(f.member_attr)


def _t_access(obj, t):
    return f"{obj}.{t.name}"


def _s_access(obj, f):
    return f"{obj}.{f.name}"


def field_attrs(sc, f, fallible, g=None):
    """o2o attributes of one S field"""
    out = []
    named_t = sc.t_kind == "named"
    if f.desig == "ghost":
        gk = f.ghost
        # every other ghost is written in its dedicated form (`T| {..}`): same meaning with a single counterpart
        ded = "T" if (sc.t_kind != "bare_tuple" and gk["owned"] % 2 == 1) else None
        if gk["split"]:
            out.append(Instr("ghost_owned", "ghost", container=ded, action=const_of(f.ty, gk["owned"]), braced=True))
            out.append(Instr("ghost_ref", "ghost", container=ded, action=const_of(f.ty, gk["ref"]), braced=True))
            if gk["owned"] % 4 >= 2:
                out.reverse()
        else:
            out.append(Instr("ghost", "ghost", container=ded, action=const_of(f.ty, gk["owned"]), braced=(gk["owned"] % 3 != 0 or ded is not None)))
        return out
    m = _member_txt(f)
    if f.desig == "as_type":
        out.append(Instr("as_type", "as_type", container=None, member=f.member_attr, ty=f.t.ty))
    elif f.desig == "expr":
        for mi in f.mis:
            is_from = None
            x = "~" if f.expr_form != "at" else None
            # `@.<field>`: the source object's field: counterpart field for From, own field for Into
            from_kinds = all(k.startswith("from") for k in mi_kinds(mi))
            into_kinds = all(not k.startswith("from") for k in mi_kinds(mi))
            if x is None:
                if from_kinds:
                    x = f"@.{f.t.name}"
                elif into_kinds:
                    x = f"@.{f.name}"
                else:
                    x = "~"
            # the expression's operand has the *source* type, which is the same leaf type on both sides here
            e = rnd_expr(f.ty, mi.n, x)
            out.append(Instr(mi.name, "map", container=None, member=f.member_attr, action=e, braced=(f.expr_form == "braced")))
    elif f.chk is not None:
        # try_ instructions apply to fallible conversions only; plain rename stays for infallible ones
        if f.member_attr is not None:
            out.append(Instr("map", "map", container=None, member=f.member_attr, action=None))
        out.append(Instr("try_map", "map", container=None, member=f.member_attr, action=f"super::chk(~, {f.chk})?", braced=False))
        return out
    elif f.member_attr is not None:
        out.append(Instr("map", "map", container=None, member=f.member_attr, action=None))
    # non-Copy leaves need a clone for by-reference kinds unless an expression already produces an owned value
    if f.ty == "String" and f.desig in ("same", "rename"):
        out.append(Instr("map_ref", "map", container=None, member=f.member_attr, action="~.clone()", braced=False))
        if out[0].name == "map" and len(out) == 2:
            out[0].name = "map_owned"
    return out


def mi_kinds(mi):
    return sorted({s[0] for s in mi.slots})


def resolve_k(f, kind, fallible):
    """marker constant of the instruction that must take effect for this conversion (statement's chain), or None"""
    w = predict(f.mis, kind, fallible, None)
    w = next(iter(w)) if len(w) == 1 else sorted(w, key=lambda x: x.n)[0]
    return w


def conv_from_expr(sc, f, kind, fallible, tobj):
    """reference: value of S field f when converting from T (kind from_owned / from_ref)"""
    ref = kind.endswith("ref")
    if f.desig == "ghost":
        return const_of(f.ty, f.ghost["ref" if ref else "owned"])
    x = f"{tobj}.{f.t.name}.clone()"
    if f.desig == "as_type":
        return f"({tobj}.{f.t.name} as {f.ty})"
    if f.desig == "expr":
        ws = predict(f.mis, kind, fallible, None)
        w = next(iter(ws))
        if w is None:
            return x
        return rnd_expr(f.ty, w.n, x)
    return x


def conv_into_expr(sc, t, kind, fallible, sobj):
    """reference: value of T field t when converting S into T (kind owned_into / ref_into / *_existing); None = untouched"""
    ref = kind.startswith("ref")
    if t.src is None:
        if t.untouched:
            return None
        return const_of(t.ty, t.ghost["ref" if ref else "owned"])
    f = t.src
    x = f"{sobj}.{f.name}.clone()"
    if f.desig == "as_type":
        return f"({sobj}.{f.name} as {t.ty})"
    if f.desig == "expr":
        ws = predict(f.mis, kind, fallible, None)
        w = sorted(ws, key=lambda m: (m is None, m.n if m else 0))[0]
        if len(ws) > 1:
            return ("AMBIG", [rnd_expr(f.ty, m.n, x) for m in ws])
        if w is None:
            return x
        return rnd_expr(f.ty, w.n, x)
    return x


def type_attrs(sc, fallible, g, which=None):
    """type-level instructions: random spelling of the requested kinds through shortcuts / basic names"""
    tyname = sc.t_path
    kinds = list(which or sc.kinds)
    out = []
    todo = set(kinds)
    shorts = list(TRAIT_SHORT.items())
    g.r.shuffle(shorts)
    for sh, ks in shorts:
        if set(ks) <= todo and g.chance(0.6):
            out.append(sh)
            todo -= set(ks)
    out += sorted(todo)
    g.r.shuffle(out)
    res = []
    for nm in out:
        res.append(Instr(FALLIBLE_NAME[nm] if fallible else nm, "trait", ty=tyname, hint=(sc.hint if sc.t_kind != "bare_tuple" else None), err="super::Er" if fallible else None, params=[]))
    return res


def t_type_def(sc):
    tf = sc.tf
    der = "#[derive(Clone, Debug, PartialEq)]\n"
    if sc.t_kind == "named":
        return der + "pub struct T { " + " ".join(f"pub {t.name}: {t.ty}," for t in tf) + " }\n"
    if sc.t_kind == "unit":
        return der + "pub struct T;\n"
    if sc.t_kind == "bare_tuple":
        return "pub type T = (" + "".join(f"{t.ty}, " for t in tf) + ");\n"
    return der + "pub struct T(" + " ".join(f"pub {t.ty}," for t in tf) + ");\n"


def t_ctor(sc, vals):
    """construct a T from a list of expressions in tf order"""
    if sc.t_kind == "named":
        return "T { " + " ".join(f"{t.name}: {v}," for t, v in zip(sc.tf, vals)) + " }"
    if sc.t_kind == "unit":
        return "T"
    if sc.t_kind == "bare_tuple":
        return "(" + "".join(f"{v}, " for v in vals) + ")"
    return "T(" + " ".join(f"{v}," for v in vals) + ")"


def s_ctor(sc, vals):
    if sc.s_shape == "named":
        return "S { " + " ".join(f"{f.name}: {v}," for f, v in zip(sc.sf, vals)) + " }"
    if sc.s_shape == "unit":
        return "S"
    return "S(" + " ".join(f"{v}," for v in vals) + ")"


def render_module(sc, g, fallible, draws, nostd=False):
    """module source for one fallibility flavour. Returns (code, derive_input_text, conversions).
    nostd=True renders a driver that needs nothing but core (values are compared in place and reported through a callback)."""
    sc.t_path = "T" if sc.t_kind != "bare_tuple" else "(" + ", ".join(t.ty for t in sc.tf) + ("," if len(sc.tf) == 1 else "") + ")"
    if sc.existing_only:
        sc.kinds = ["from_owned", "from_ref", "owned_into_existing", "ref_into_existing"]
    elif sc.t_kind == "unit" and False:
        sc.kinds = list(KINDS)
    else:
        sc.kinds = list(KINDS)
    if sc.t_kind == "bare_tuple" and len(sc.tf) == 0:
        sc.kinds = []
    it = Item("struct", "S", shape=sc.s_shape, vis="pub ")
    it.attrs = type_attrs(sc, fallible, g)
    # type-level ghosts for T-only fields
    only = [t for t in sc.tf if t.src is None and t.ghost]
    if only:
        dedg = "T" if (sc.t_kind != "bare_tuple" and only[0].ghost["owned"] % 2 == 1) else None
        if any(t.ghost["split"] for t in only):
            it.attrs.append(Instr("ghosts_owned", "ghosts", container=dedg, entries=[dict(path=None, ident=t.name, action=const_of(t.ty, t.ghost["owned"])) for t in only]))
            it.attrs.append(Instr("ghosts_ref", "ghosts", container=dedg, entries=[dict(path=None, ident=t.name, action=const_of(t.ty, t.ghost["ref"])) for t in only]))
        else:
            it.attrs.append(Instr("ghosts", "ghosts", container=dedg, entries=[dict(path=None, ident=t.name, action=const_of(t.ty, t.ghost["owned"])) for t in only]))
    for f in sc.sf:
        it.fields.append(Field(f.name if sc.s_shape == "named" else None, f.ty, field_attrs(sc, f, fallible)))
    derive_src = it.render(derive="#[derive(Clone, Debug, PartialEq, o2o::o2o)]" if not nostd else "#[derive(Clone, Debug, PartialEq, o2o_macros::o2o)]")
    L = ["use super::*;", "use o2o::traits::*;", t_type_def(sc), derive_src, ""]
    convs = []
    wrap = (lambda e: f"Ok::<_, super::Er>({e})") if fallible else (lambda e: e)
    for kind in sc.kinds:
        if kind.startswith("from"):
            vals = [conv_from_expr(sc, f, kind, fallible, "t") for f in sc.sf]
            body = s_ctor(sc, vals)
            pre = ""
            if fallible and sc.chk is not None:
                pre = f"if t.{sc.chk.t.name} % 5 == 0 {{ return Err(super::Er({sc.chk.chk})); }} "
            L.append(f"fn ref_{kind}(t: &T) -> {'Result<S, super::Er>' if fallible else 'S'} {{ {pre}{wrap(body)} }}")
        else:
            existing = kind.endswith("existing")
            vals = []
            ambig = False
            for t in sc.tf:
                v = conv_into_expr(sc, t, kind, fallible, "s")
                if isinstance(v, tuple):
                    ambig = True
                    v = v[1][0]
                if v is None:
                    v = f"pre.{t.name}.clone()"
                vals.append(v)
            body = t_ctor(sc, vals)
            pre = ""
            if fallible and sc.chk is not None:
                pre = f"if s.{sc.chk.name} % 5 == 0 {{ return Err(super::Er({sc.chk.chk})); }} "
            L.append(f"fn ref_{kind}(s: &S, pre: &T) -> {'Result<T, super::Er>' if fallible else 'T'} {{ {pre}{wrap(body)} }}")
        convs.append(kind)
    # driver
    tag = f"c{sc.cid}{'f' if fallible else 'i'}"
    if nostd:
        D = ["pub fn run(report: &mut dyn FnMut(&'static str, &'static str, bool)) {", f"    let mut r = crate::Rng::new({sc.cid + 1000});", f"    for d in 0..{draws}usize {{"]
        D.append("        let t: T = " + t_ctor(sc, [rng_call(t.ty) for t in sc.tf]) + ";")
        D.append("        let pre: T = " + t_ctor(sc, [rng_call(t.ty) for t in sc.tf]) + ";")
        D.append("        let s: S = " + s_ctor(sc, [rng_call(f.ty) for f in sc.sf]) + ";")
        for kind in convs:
            name = ("try_" if fallible else "") + kind
            if kind == "from_owned":
                call, want = ("S::try_from(t.clone())" if fallible else "S::from(t.clone())"), "ref_from_owned(&t)"
            elif kind == "from_ref":
                call, want = ("S::try_from(&t)" if fallible else "S::from(&t)"), "ref_from_ref(&t)"
            elif kind == "owned_into":
                call, want = ("{ let x: Result<T, super::Er> = s.clone().try_into(); x }" if fallible else "{ let x: T = s.clone().into(); x }"), "ref_owned_into(&s, &pre)"
            elif kind == "ref_into":
                call, want = ("{ let x: Result<T, super::Er> = (&s).try_into(); x }" if fallible else "{ let x: T = (&s).into(); x }"), "ref_ref_into(&s, &pre)"
            elif kind == "owned_into_existing":
                call, want = ("{ let mut o = pre.clone(); let x = s.clone().try_into_existing(&mut o); x.map(|_| o) }" if fallible else "{ let mut o = pre.clone(); s.clone().into_existing(&mut o); o }"), "ref_owned_into_existing(&s, &pre)"
            else:
                call, want = ("{ let mut o = pre.clone(); let x = (&s).try_into_existing(&mut o); x.map(|_| o) }" if fallible else "{ let mut o = pre.clone(); (&s).into_existing(&mut o); o }"), "ref_ref_into_existing(&s, &pre)"
            D.append(f'        report("{tag}", "{name}", {call} == {want});')
        D += ["    }", "}"]
        return "\n".join(L + D) + "\n", derive_src, convs
    D = ["pub fn run(log: &mut crate::rt::Log) {", f"    let mut r = crate::rt::Rng::new({sc.cid + 1000});", f"    for d in 0..{draws}usize {{"]
    chk_bias = ""
    D.append("        let t: T = " + t_ctor(sc, [rng_call(t.ty) for t in sc.tf]) + ";")
    D.append("        let pre: T = " + t_ctor(sc, [rng_call(t.ty) for t in sc.tf]) + ";")
    D.append("        let s: S = " + s_ctor(sc, [rng_call(f.ty) for f in sc.sf]) + ";")
    if sc.chk is not None:
        # make both outcomes of the check frequent
        D.append(f"        let mut t = t; let mut s = s; if d % 3 == 0 {{ t.{sc.chk.t.name} = (t.{sc.chk.t.name} / 5).wrapping_mul(5); s.{sc.chk.name} = (s.{sc.chk.name} / 5).wrapping_mul(5); }}")
    for kind in convs:
        name = ("try_" if fallible else "") + kind
        if kind == "from_owned":
            call = "S::try_from(t.clone())" if fallible else "S::from(t.clone())"
            want, src = "ref_from_owned(&t)", "t"
        elif kind == "from_ref":
            call = "S::try_from(&t)" if fallible else "S::from(&t)"
            want, src = "ref_from_ref(&t)", "t"
        elif kind == "owned_into":
            call = "{ let x: Result<T, super::Er> = s.clone().try_into(); x }" if fallible else "{ let x: T = s.clone().into(); x }"
            want, src = "ref_owned_into(&s, &pre)", "s"
        elif kind == "ref_into":
            call = "{ let x: Result<T, super::Er> = (&s).try_into(); x }" if fallible else "{ let x: T = (&s).into(); x }"
            want, src = "ref_ref_into(&s, &pre)", "s"
        elif kind == "owned_into_existing":
            call = "{ let mut o = pre.clone(); let x = s.clone().try_into_existing(&mut o); x.map(|_| o) }" if fallible else "{ let mut o = pre.clone(); s.clone().into_existing(&mut o); o }"
            want, src = "ref_owned_into_existing(&s, &pre)", "s"
        else:
            call = "{ let mut o = pre.clone(); let x = (&s).try_into_existing(&mut o); x.map(|_| o) }" if fallible else "{ let mut o = pre.clone(); (&s).into_existing(&mut o); o }"
            want, src = "ref_ref_into_existing(&s, &pre)", "s"
        srcfmt = f'&format!("{{:?}}|pre={{:?}}", {src}, pre)' if "existing" in kind else f'&format!("{{:?}}", {src})'
        D.append(f'        log.ev("{tag}", "{name}", d, {srcfmt}, &crate::rt::guard(|| {call}), &format!("{{:?}}", {want}));')
    unt = [t for t in sc.tf if t.untouched]
    if unt:
        for kind, recv in (("owned_into_existing", "s.clone()"), ("ref_into_existing", "(&s)")):
            if kind in convs:
                call = f"{recv}.try_into_existing(&mut o).ok();" if fallible else f"{recv}.into_existing(&mut o);"
                tup_o = "(" + ", ".join(f"o.{t.name}.clone()" for t in unt) + ",)"
                tup_p = "(" + ", ".join(f"pre.{t.name}.clone()" for t in unt) + ",)"
                D.append(f'        {{ let mut o = pre.clone(); {call} log.ev("{tag}", "untouched_{("try_" if fallible else "") + kind}", d, "", &format!("{{:?}}", {tup_o}), &format!("{{:?}}", {tup_p})); }}')
    if sc.chk is not None:
        D.append(f'        log.ev("{tag}", "chk_inputs", d, "", &format!("{{}},{{}}", t.{sc.chk.t.name} % 5 == 0, s.{sc.chk.name} % 5 == 0), "{sc.chk.chk}");')
    D.append("    }")
    D.append("}")
    return "\n".join(L + D) + "\n", derive_src, convs


PRELUDE = '''
#[derive(Clone, Debug, PartialEq)]
pub struct Er(pub u32);
pub fn chk(v: i32, id: u32) -> Result<i32, Er> { if v % 5 == 0 { Err(Er(id)) } else { Ok(v) } }
'''


def render_case(sc, g, draws):
    """one case file = prelude + mod inf { .. } + mod fal { .. }"""
    ci, di, ki = render_module(sc, g, False, draws)
    cf, df, kf = render_module(sc, g, True, draws)
    code = PRELUDE + "pub mod inf {\n" + ci + "}\npub mod fal {\n" + cf + "}\n" + "pub fn run(log: &mut crate::rt::Log) { inf::run(log); fal::run(log); }\n"
    return code, di, df, ki
