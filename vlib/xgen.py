"""Grammar-directed generator of derive inputs for the level-X checks.

Inputs are *documented-valid usage* (README sections / o2o-tests precedents): counterpart types need not
exist at level X, only o2o's own rules have to be respected. Every instruction carries a unique marker
(`m<N>` member names, `k<N>(..)` expressions) so that which instruction took effect is readable from the
output tokens.
"""
import re
from .model import Instr, Field, Variant, Item, KINDS, kinds_of, name_for, FALLIBLE_NAME, TRAIT_SHORT

MEMBER_MAP_NAMES = ["owned_into", "ref_into", "into", "from_owned", "from_ref", "from", "map_owned", "map_ref", "map",
                    "owned_into_existing", "ref_into_existing", "into_existing",
                    "owned_try_into", "ref_try_into", "try_into", "try_from_owned", "try_from_ref", "try_from",
                    "try_map_owned", "try_map_ref", "try_map"]
LEAF_TYPES = ["i32", "u8", "i64", "bool", "String", "u16", "char"]
COUNTERPARTS = ["A", "B", "m::C", "::k::D", "G<i32>", "H::<u8>", "Q<'x, u8>", "crate::dto::E", "self::F", "super::K", "R<i32, u8,>", "m::W<i32>", "crate::dto::X<'x, u8>"]


class G:
    def __init__(self, rng):
        self.r = rng
        self.n = 0

    def mark(self):
        self.n += 1
        return self.n

    def chance(self, p):
        return self.r.random() < p

    def pick(self, xs):
        return xs[self.r.randrange(len(xs))]

    # ---- expressions -------------------------------------------------------------------------
    def expr(self, tilde=True, at=True):
        k = self.mark()
        forms = [f"k{k}()", f"k{k}(1, 2)"]
        if self.chance(0.08):
            # a literal as the whole expression; suffixed / oversized / non-integer literals are not member designations
            return self.pick([f"{k}u8", f"{k}i64", f"{k}usize", "10000000000", f"{k}.5", f"{k}f32", f"'{chr(97 + k % 26)}'", f'"s{k}"', "true", f"-{k}", f"0x{k:x}u16", f"b'{chr(97 + k % 26)}'"])
        if tilde:
            forms += [f"k{k}(~)", f"~.k{k}()", f"~ + k{k}", f"(~, k{k}).0", f"[~, k{k}][0]", f"k{k}(&~).clone()"]
        if at:
            forms += [f"@.k{k}", f"k{k}(&@)", f"k{k}(@.x.clone())"]
        return self.pick(forms)

    # ---- trait instructions ------------------------------------------------------------------
    def trait_set(self, cps, allow_existing=True, fallible="mixed", shortcuts=True):
        """Random list of trait Instr over counterparts `cps` with unique (kind, fallible, ty)."""
        out = []
        for cp in cps:
            taken = set()
            names = list(TRAIT_SHORT.keys()) + KINDS if shortcuts else list(KINDS)
            if not allow_existing:
                names = [n for n in names if "existing" not in n]
            self.r.shuffle(names)
            want = self.r.randint(1, 3)
            for n in names:
                if want == 0:
                    break
                fal = {"mixed": self.chance(0.35), "yes": True, "no": False}[fallible]
                ks = {(k, fal) for k in kinds_of(n)}
                if ks & taken:
                    continue
                taken |= ks
                nm = FALLIBLE_NAME[n] if fal else n
                out.append(Instr(nm, "trait", ty=cp, hint=None, err=("E" + str(self.mark())) if fal else None, params=[]))
                want -= 1
        self.r.shuffle(out)
        return out

    # ---- member instructions -------------------------------------------------------------------
    def member_map(self, cps, named_target=True, idx=None, allow_dedicated=True, force_member=False, names=None):
        n = self.pick(names or MEMBER_MAP_NAMES)
        c = self.pick(cps) if (allow_dedicated and self.chance(0.3)) else None
        form = self.r.random()
        k = self.mark()
        member = None
        action = None
        if force_member or form < 0.45:
            member = f"m{k}" if named_target else (idx if idx is not None else 0)
        if form > 0.3 or (member is None):
            action = self.expr()
        if member is None and action is None:
            action = self.expr()
        return Instr(n, "map", container=c, member=member, action=action, braced=self.chance(0.3))


def struct_basic(g, n_cp=None, shape=None, fields=None, rich=True):
    """Struct with plain/renamed/expr/ghost/as_type fields, type-level ghosts, 1..3 counterparts."""
    r = g.r
    n_cp = n_cp or r.choice([1, 1, 2, 2, 3])
    cps = r.sample(COUNTERPARTS, n_cp)
    if n_cp >= 2 and g.chance(0.25):
        # counterparts that differ only in generic arguments or only in their leading path
        cps[:2] = g.pick([["G<i32>", "G<u8>"], ["m::C", "n::C"], ["Q<'x, u8>", "Q<'y, u8>"], ["H::<u8>", "H::<i8>"]])
        cps = [c for i, c in enumerate(cps) if c not in cps[:i]]
    shape = shape or r.choice(["named", "named", "tuple"])
    it = Item("struct", "S", shape=shape)
    it.attrs = g.trait_set(cps)
    it.meta["cps"] = cps
    hint_for = {}
    for t in it.attrs:
        if t.f["ty"] not in hint_for:
            hint_for[t.f["ty"]] = r.choice([None, None, None, "{}" if shape == "named" else "()"])
        t.f["hint"] = hint_for[t.f["ty"]]
    nf = fields or r.randint(1, 6)
    named_cp = None
    if shape == "tuple" and rich and g.chance(0.3):
        named_cp = r.choice(cps)
        for t in it.attrs:
            if t.f["ty"] == named_cp:
                t.f["hint"] = "{}"
    for i in range(nf):
        f = Field(f"f{i}" if shape == "named" else None, r.choice(LEAF_TYPES))
        if named_cp is not None and len(cps) > 1 and g.chance(0.2):
            # for the field-named counterpart the member is a ghost (needs no name); the expression-only instruction serves the positional ones
            f.attrs.append(Instr(r.choice(["map", "into", "from"]), "map", container=None, member=None, action=g.expr(at=False), braced=True))
            f.attrs.append(Instr("ghost", "ghost", container=named_cp, action=f"k{g.mark()}()", braced=True))
            it.fields.append(f)
            continue
        if named_cp is not None:
            all_fal = all(t.f.get("err") for t in it.attrs if t.kind == "trait" and t.f["ty"] == named_cp)
            nm_ = "try_map" if (all_fal and g.chance(0.5)) else "map"
            # written after a possible default instruction of the same member: the dedicated one still is the one that counts
            f.attrs.append(Instr(nm_, "map", container=named_cp, member=f"m{g.mark()}", action=(g.expr(at=False) if g.chance(0.25) else None), braced=True))
            if len(cps) > 1 and g.chance(0.4):
                # the positional counterparts get an expression through a default instruction of the same name, written first:
                # for the field-named counterpart the dedicated one still is the one that counts
                f.attrs.insert(0, Instr(nm_, "map", container=None, member=None, action=g.expr(at=False), braced=True))
        roll = r.random()
        if named_cp is not None:
            # other instructions of the member could out-rank the naming one for single kinds (exact kind before fallback): only ghosts of other counterparts are added
            roll = 0.0
            if len(cps) > 1 and g.chance(0.3):
                f.attrs.insert(0, Instr("ghost", "ghost", container=r.choice([c for c in cps if c != named_cp]), action=f"k{g.mark()}()", braced=True))
        if not rich or roll < 0.4:
            pass
        elif roll < 0.7:
            for _ in range(r.choice([1, 1, 2, 3])):
                f.attrs.append(g.member_map(cps, named_target=(shape == "named"), idx=i))
        elif roll < 0.8:
            nm = r.choice(["ghost", "ghost", "ghost_owned", "ghost_ref"])
            c = r.choice(cps) if g.chance(0.3) else None
            f.attrs.append(Instr(nm, "ghost", container=c, action=f"k{g.mark()}()", braced=g.chance(0.7)))
        elif roll < 0.9:
            f.attrs.append(Instr("as_type", "as_type", container=(r.choice(cps) if g.chance(0.2) else None),
                                 member=((f"m{g.mark()}" if shape == "named" else i) if g.chance(0.5) else None), ty=r.choice(["i64", "f32", "u8"])))
        else:
            f.attrs.append(g.member_map(cps, named_target=(shape == "named"), idx=i, force_member=True, names=["map"]))
            f.attrs.append(g.member_map(cps, named_target=(shape == "named"), idx=i, names=["from_owned", "ref_into", "owned_into_existing", "try_from"]))
        # a ghost of the field-named counterpart needs no name; everything else got one above
        it.fields.append(f)
    if rich and g.chance(0.4):
        # type level ghosts: default and/or dedicated
        def entries(by_name=False):
            es = []
            for j in range(r.randint(1, 2)):
                k = g.mark()
                es.append(dict(path=None, ident=(f"g{k}" if (shape == "named" or by_name) else nf + j), action=f"k{k}()"))
            return es
        nm = r.choice(["ghosts", "ghosts", "ghosts_owned", "ghosts_ref"])
        # a counterpart addressed by field name gets its ghosts by name, the positional ones by index: no default list can serve both
        if g.chance(0.6) and named_cp is None:
            it.attrs.append(Instr(nm, "ghosts", container=None, entries=entries()))
        if g.chance(0.5):
            c_ = r.choice(cps)
            it.attrs.append(Instr(nm, "ghosts", container=c_, entries=entries(by_name=(c_ == named_cp))))
    if rich and g.chance(0.2):
        it.generics = "<T>" if g.chance(0.6) else "<'a, 'b, T>"
        if g.chance(0.7):
            it.attrs.append(Instr("where_clause", "where_clause", container=(r.choice(cps) if g.chance(0.4) else None), preds=f"T: W{g.mark()}"))
        if g.chance(0.5):
            it.where = f"T: Ow{g.mark()}"      # the type's own where clause
            if "'b" in it.generics:
                it.where = r.choice(["'b: 'a, ", "T: 'a, 'b: 'a, "]) + it.where
    if rich:
        add_params(g, it)
    r.shuffle(it.attrs) if g.chance(0.5) else None
    return it


def add_params(g, it, p=0.35):
    r = g.r
    for t in it.attrs:
        if t.kind != "trait" or not g.chance(p):
            continue
        ps = []
        if g.chance(0.5):
            vs = []
            for _ in range(r.randint(1, 2)):
                k = g.mark()
                vs.append((f"v{k}", f"k{k}(&@)"))
            ps.append(("vars", vs))
        for nm in ("attribute", "impl_attribute", "inner_attribute"):
            if g.chance(0.25):
                ps.append((nm, f"a{g.mark()}(x)"))
        r.shuffle(ps)
        roll = r.random()
        if roll < 0.03 and it.kind == "struct":
            ps.append(("update", ""))       # a bare `..` is accepted and means "no update expression"
        elif roll < 0.2 and it.kind == "struct":
            ps.append(("update", f"k{g.mark()}()"))
        elif roll < 0.35:
            ps.append(("return", f"k{g.mark()}(@)"))
        elif roll < 0.5 and it.kind == "enum":
            ps.append(("default", f"=> k{g.mark()}()"))
        t.f["params"] = ps


def struct_children_split(g):
    """Two counterparts with their own #[child_parents(T| ..)] lists; a member may carry a default #[child(p)] next to a #[child(B| q)] dedicated to B:
    B then does not use the default one, and B's list need not know `p`."""
    r = g.r
    cps = r.sample(["A", "B", "m::C"], 2)
    it = Item("struct", "S", shape="named")
    it.attrs = g.trait_set(cps)
    it.meta["cps"] = cps
    pa, pb = f"p{g.mark()}", f"q{g.mark()}"
    for i in range(r.randint(2, 5)):
        f = Field(f"f{i}", r.choice(LEAF_TYPES))
        roll = r.random()
        if roll < 0.5:
            ch = [Instr("child", "child", container=None, path=pa), Instr("child", "child", container=cps[1], path=pb)]
            if g.chance(0.5):
                ch.reverse()
            f.attrs += ch
        elif roll < 0.7:
            f.attrs.append(Instr("child", "child", container=cps[0], path=pa))
            f.attrs.append(Instr("child", "child", container=cps[1], path=pb))
        it.fields.append(f)
    it.attrs.append(Instr("child_parents", "child_parents", container=cps[0], entries=[dict(path=pa, ty=f"T{g.mark()}", hint=None)]))
    it.attrs.append(Instr("child_parents", "child_parents", container=cps[1], entries=[dict(path=pb, ty=f"T{g.mark()}", hint=None)]))
    return it


def struct_children(g, n_cp=None):
    """Flat struct whose fields are #[child(path)] of nested counterparts (README 'Flatened children')."""
    r = g.r
    if n_cp is None and g.chance(0.08):
        return struct_children_split(g)
    n_cp = n_cp or r.choice([1, 1, 2])
    cps = r.sample(["A", "B", "m::C"], n_cp)
    shape = r.choice(["named", "named", "tuple"])
    it = Item("struct", "S", shape=shape)
    it.attrs = g.trait_set(cps)
    it.meta["cps"] = cps
    # a random tree of paths
    paths = []
    frontier = [""]
    uni = ["ab", "a\u00e9", "a\u00f1b", "\u00fc", "a\u0431", "\u00e9a", "ab\u00e9"]      # identifiers are Unicode; sibling paths may share a byte prefix
    r.shuffle(uni)
    for _ in range(r.randint(1, 4)):
        base = r.choice(frontier)
        seg = f"p{g.mark()}" if (not uni or not g.chance(0.12)) else uni.pop()
        if not seg.isascii() and "ab" in uni and g.chance(0.6):
            # a sibling whose name shares the first byte(s)
            uni.remove("ab")
            sib = f"{base}.ab" if base else "ab"
            paths.append(sib)
            frontier.append(sib)
        p = f"{base}.{seg}" if base else seg
        paths.append(p)
        frontier.append(p)
    dedicated = n_cp > 1 and g.chance(0.4)
    nf = r.randint(2, 7)
    for i in range(nf):
        f = Field(f"f{i}" if shape == "named" else None, r.choice(LEAF_TYPES))
        if g.chance(0.7):
            if dedicated:
                f.attrs.append(Instr("child", "child", container=cps[0], path=r.choice(paths)))
                if g.chance(0.5):
                    f.attrs.append(Instr("child", "child", container=cps[1], path=r.choice(paths)))
            else:
                f.attrs.append(Instr("child", "child", container=None, path=r.choice(paths)))
        if g.chance(0.3):
            f.attrs.append(g.member_map(cps, named_target=(shape == "named"), idx=i))
        it.fields.append(f)

    if shape == "named" and g.chance(0.08):
        # a member poured into the counterpart by its own IntoExisting impl, next to the flattened ones
        it.fields.insert(r.randint(0, len(it.fields)), Field(f"pz{g.mark()}", f"P{g.mark()}", [Instr("parent", "parent", container=None, fields=None)]))
    # nested structs that only path-addressed ghosts fill (no #[child] field maps into them)
    ghost_only = []
    if shape == "named" and g.chance(0.3):
        for _ in range(r.randint(1, 4)):
            base = r.choice([""] + paths)
            seg = f"q{g.mark()}"
            ghost_only.append(f"{base}.{seg}" if base else seg)
        paths = paths + ghost_only

    # in a tuple struct a nested struct may still be field-named (`as {}`): every member under it then names its field
    named_children = set()
    if shape == "tuple" and g.chance(0.35):
        named_children = {p_ for p_ in paths if g.chance(0.6)}
        for f in it.fields:
            ch = [a for a in f.attrs if a.kind == "child"]
            if ch and any(a.f["path"] in named_children for a in ch) and not any(a.kind == "map" and a.f.get("member") is not None and a.f.get("container") is None and a.name == "map" for a in f.attrs):
                f.attrs = [a for a in f.attrs if a.kind != "map"] + [Instr("map", "map", container=None, member=f"m{g.mark()}", action=None)]

    def cp_entries():
        # generic arguments in turbofish form: the path is also used in expression position (README 'Generics' does the same for the counterpart)
        return [dict(path=p, ty=f"T{g.mark()}" + r.choice(["", "", "", "::<i32>", "::<u8>", "::<'x, u8>"]) if g.chance(0.85) else f"m::T{g.mark()}", hint=("{}" if p in named_children else None)) for p in paths]
    if dedicated and g.chance(0.4):
        # the first counterpart has its own list; the default one - written first - only covers what the others use
        used_by_others = set()
        for f in it.fields:
            for a in f.attrs:
                if a.kind == "child" and a.f.get("container") != cps[0] and (a.f.get("container") is not None or not any(b.kind == "child" and b.f.get("container") == cps[0] for b in f.attrs)):
                    parts = a.f["path"].split(".")
                    used_by_others |= {".".join(parts[:i + 1]) for i in range(len(parts))}
        gp = {e_.get("path") for a in it.attrs if a.kind == "ghosts" for e_ in a.f["entries"]}
        full = cp_entries()
        dflt = [e for e in cp_entries() if e["path"] in used_by_others or any(str(x_).startswith(e["path"]) for x_ in gp if x_)]
        if dflt and len(cps) >= 2:
            it.attrs.append(Instr("child_parents", "child_parents", container=None, entries=dflt))
            it.attrs.append(Instr("child_parents", "child_parents", container=cps[0], entries=full))
        else:
            for c in cps[:2]:
                it.attrs.append(Instr("child_parents", "child_parents", container=c, entries=cp_entries()))
    elif dedicated:
        for c in cps[:2]:
            needs = any(k in ("owned_into", "ref_into") for t in it.attrs if t.kind == "trait" and t.f["ty"] == c for k in kinds_of(t.name))
            ents = cp_entries()
            if not needs and g.chance(0.6):
                # only Into impls construct the nested structs: for From / IntoExisting the list may be partial or absent
                ents = [e for e in ents if g.chance(0.4)]
                if not ents:
                    continue
            it.attrs.append(Instr("child_parents", "child_parents", container=c, entries=ents))
    else:
        it.attrs.append(Instr("child_parents", "child_parents", container=None, entries=cp_entries()))
    if (ghost_only or g.chance(0.3)) and shape == "named":
        # ghosts addressed by child path need the child_parents of the counterpart they apply to; several entries may address
        # different nested structs, also ones no #[child] field maps into
        es = []
        for pth in (ghost_only + r.sample(paths, r.randint(0, 1))) if ghost_only else r.sample(paths, r.randint(1, min(3, len(paths)))):
            for _ in range(r.choice([1, 1, 2])):
                k = g.mark()
                es.append(dict(path=pth, ident=f"g{k}", action=f"k{k}()"))
        r.shuffle(es)
        it.attrs.append(Instr("ghosts", "ghosts", container=(cps[0] if dedicated else None), entries=es))
    return it


def struct_tuple_bare_parent(g):
    """Tuple struct with a bare #[parent] member: the Into impls use the post-init form (`let mut obj = ..; obj.N = ..;`), in which members that
    carry an instruction have their own statement form."""
    r = g.r
    cps = r.sample(["A", "B", "m::C"], r.choice([1, 2]))
    it = Item("struct", "S", shape="tuple")
    it.attrs = g.trait_set(cps)
    it.meta["cps"] = cps
    nf = r.randint(2, 4)
    pidx = r.randrange(nf)
    for i in range(nf):
        f = Field(None, r.choice(LEAF_TYPES))
        if i == pidx:
            f.ty = f"P{g.mark()}"
            f.attrs.append(Instr("parent", "parent", container=None, fields=None))
        elif g.chance(0.6):
            k = g.mark()
            f.attrs.append(Instr(r.choice(["map", "map", "into", "map_owned", "map_ref"]), "map", container=None, member=i, action=(f"~.k{k}()" if g.chance(0.5) else None), braced=g.chance(0.5)))
        it.fields.append(f)
    return it


def struct_parents(g):
    """Struct holding nested values flattened into the counterpart via #[parent(..)] (README 'Parent instructions')."""
    r = g.r
    if g.chance(0.15):
        return struct_tuple_bare_parent(g)
    cps = r.sample(["A", "B", "G<i32>", "Q<'x, u8>"], r.choice([1, 2, 2]))
    shape = "named"
    it = Item("struct", "S", shape=shape)
    it.attrs = g.trait_set(cps)
    into_only = None
    if len(cps) == 2 and g.chance(0.4):
        # the first counterpart is only converted Into (its nests need no types), the other one also From
        into_only = cps[0]
        keep = [t for t in it.attrs if t.f["ty"] != into_only or not any(k.startswith("from") for k in kinds_of(t.name))]
        if not any(t.f["ty"] == into_only for t in keep):
            keep.append(Instr(r.choice(["owned_into", "ref_into", "into", "into_existing"]), "trait", ty=into_only, hint=None, err=None, params=[]))
        if not any(t.f["ty"] == cps[1] and any(k.startswith("from") for k in kinds_of(t.name)) for t in keep) and not any(t.f["ty"] == cps[1] and t.name in ("from", "from_owned") for t in keep):
            if not any(t.f["ty"] == cps[1] and "from_owned" in kinds_of(t.name) and not t.f.get("err") for t in keep):
                keep.append(Instr("from_owned", "trait", ty=cps[1], hint=None, err=None, params=[]))
        it.attrs = keep
    it.meta["cps"] = cps
    nf = r.randint(1, 4)
    have_parent = False
    for i in range(nf):
        f = Field(f"f{i}", r.choice(LEAF_TYPES))
        if g.chance(0.5) or (i == nf - 1 and not have_parent):
            have_parent = True
            f.ty = f"P{g.mark()}"
            if g.chance(0.2):
                # the flattened value's type may carry generic arguments (From impls construct it: the path stands in expression position there)
                f.ty += r.choice(["<i32>", "<u8, bool>", "<'static>"])
            if g.chance(0.35):
                f.attrs.append(Instr("parent", "parent", container=None, fields=None))
            else:
                def plist(depth):
                    if depth == 0 and g.chance(0.2):
                        # a tuple-typed parent: members addressed by index, each naming the counterpart's field, in ascending order
                        xs = []
                        for j in range(r.randint(1, 3)):
                            k = g.mark()
                            nm_ = r.choice(['map', 'map', 'from] [into', 'map_owned] [map_ref'])
                            arg = f"m{k}" if g.chance(0.7) else f"m{k}, ~.k{k}()"
                            xs.append("".join(f"[{n_.strip('[] ')}({arg})] " for n_ in nm_.split("] [")) + str(j))
                        return ", ".join(xs)
                    xs = []
                    for _ in range(r.randint(1, 3)):
                        k = g.mark()
                        if depth < 2 and g.chance(0.3):
                            xs.append(f"[parent({plist(depth + 1)})] q{k}: Q{k}" + (r.choice(["<i32>", "<u8, bool>"]) if g.chance(0.2) else ""))
                        elif g.chance(0.3):
                            xs.append(f"[{r.choice(['map', 'from', 'into', 'map_owned', 'map_ref', 'into_existing', 'from_ref', 'owned_into'])}(m{k})] x{k}")
                        elif g.chance(0.2):
                            xs.append(f"[map(~.k{k}())] x{k}")
                        else:
                            xs.append(f"x{k}")
                    if len(xs) == 1 and not xs[0].startswith("["):
                        xs.append(f"x{g.mark()}")  # a single bare ident would be read as a dedicated type
                    return ", ".join(xs) + ("," if g.chance(0.15) else "")      # a list may end with a comma
                c = (into_only if (into_only and g.chance(0.6)) else r.choice(cps)) if g.chance(0.25 if into_only is None else 0.6) else None
                args = plist(0)
                from_cps = {t.f["ty"] for t in it.attrs if t.kind == "trait" and any(k.startswith("from") for k in kinds_of(t.name))}
                if c is not None and c not in from_cps and g.chance(0.6):
                    # only From impls construct the nested values: a nest dedicated to a counterpart that is only converted Into needs no types
                    args = re.sub(r"(\] q\d+): Q\d+(<[^>]*>)?", r"\1", args)
                f.attrs.append(Instr("parent", "parent", container=c, fields=args))
        it.fields.append(f)
    return it


def enum_basic(g, n_cp=None):
    r = g.r
    n_cp = n_cp or r.choice([1, 1, 2])
    cps = r.sample(["A", "B", "m::C", "G<i32>", "m::W<i32>"], n_cp)
    it = Item("enum", "S")
    it.attrs = g.trait_set(cps, allow_existing=False)
    it.meta["cps"] = cps
    nv = r.randint(1, 5)
    for i in range(nv):
        shape = r.choice(["unit", "tuple", "named"])
        v = Variant(f"V{i}", shape)
        for j in range(0 if shape == "unit" else r.randint(1, 3)):
            f = Field(f"x{j}" if shape == "named" else None, r.choice(LEAF_TYPES))
            roll = r.random()
            if roll < 0.25:
                f.attrs.append(g.member_map(cps, named_target=(shape == "named"), idx=j))
            elif roll < 0.35:
                f.attrs.append(Instr(r.choice(["ghost", "ghost_owned", "ghost_ref"]), "ghost", container=None, action=f"k{g.mark()}()", braced=True))
            v.fields.append(f)
        roll = r.random()
        if roll < 0.2:
            v.attrs.append(Instr(r.choice(["map", "from", "into", "map_owned", "from_ref"]), "map", container=(r.choice(cps) if g.chance(0.25) else None),
                                 member=f"M{g.mark()}", action=None))
        elif roll < 0.3:
            hint = r.choice(["()", "{}", "Unit"]) if shape != "tuple" else r.choice(["Unit", "()", "{}"])
            if shape == "tuple" and hint == "{}" and len(cps) >= 2 and g.chance(0.5):
                # the struct form (and the field names it needs) dedicated to the first counterpart only: the others keep the tuple form
                v.attrs.append(Instr("type_hint", "type_hint", container=cps[0], hint=hint))
                for f in v.fields:
                    f.attrs = [Instr("map", "map", container=cps[0], member=f"m{g.mark()}", action=None)]
                it.variants.append(v)
                continue
            v.attrs.append(Instr("type_hint", "type_hint", container=None, hint=hint))
            if shape == "tuple" and hint == "{}":
                # a tuple variant mapped to a field-named one: every payload field names its counterpart field; where only From impls are requested
                # an expression alone satisfies the documented rule ("field name or an action")
                from_only = all(k.startswith("from") for t in it.attrs if t.kind == "trait" for k in kinds_of(t.name))
                for f in v.fields:
                    f.attrs = [a for a in f.attrs if a.kind == "ghost" and a.name == "ghost"]
                    if f.attrs:
                        continue
                    if from_only and g.chance(0.3):
                        f.attrs.append(Instr("from", "map", container=None, member=None, action=f"k{g.mark()}()", braced=True))
                    else:
                        f.attrs.append(Instr("map", "map", container=None, member=f"m{g.mark()}", action=(g.expr(at=False) if g.chance(0.3) else None), braced=True))
        elif roll < 0.4:
            v.attrs.append(Instr(r.choice(["ghost", "ghost_owned"]), "ghost", container=(r.choice(cps) if g.chance(0.35) else None), action=f"k{g.mark()}()", braced=True))
        elif roll < 0.5 and shape != "unit":
            k = g.mark()
            v.attrs.append(Instr("ghosts", "ghosts", container=None, entries=[dict(path=None, ident=(f"g{k}" if shape == "named" else len(v.fields)), action=f"k{k}()")]))
        it.variants.append(v)
    if g.chance(0.3):
        k = g.mark()
        it.attrs.append(Instr("ghosts", "ghosts", container=None, entries=[dict(path=None, ident=f"X{k}", action=f"k{k}()")]))
    add_params(g, it, p=0.25)
    return it


def enum_prim(g):
    """Enum <-> primitive via literal / pattern (README 'Mapping to primitive types')."""
    r = g.r
    cps = r.sample(["i32", "u8", "StaticStr"], r.choice([1, 1, 2]))
    it = Item("enum", "S")
    it.meta["cps"] = cps
    for c in cps:
        nm = r.choice(["map_owned", "from_owned", "try_map_owned", "from_ref", "owned_into"])
        fal = nm.startswith("try")
        it.attrs.append(Instr(nm, "trait", ty=c, hint=None, err="Er" if fal else None,
                              params=[("default", f"=> k{g.mark()}()")] if g.chance(0.7) else []))
    only_into = all(t.name == "owned_into" for t in it.attrs)
    # an ordinary enum counterpart next to the primitive ones: its variants correspond by name; the literals / patterns are then all dedicated
    plain = None
    if g.chance(0.3):
        plain = r.choice(["B", "m::C"])
        for nm in r.sample(["map_owned", "from_ref", "ref_into", "try_from_owned"], r.randint(1, 2)):
            fal = nm.startswith("try")
            it.attrs.append(Instr(nm, "trait", ty=plain, hint=None, err="Ep" if fal else None, params=[("default", f"=> k{g.mark()}()")] if g.chance(0.5) else []))
        it.meta["cps"] = cps + [plain]
        r.shuffle(it.attrs)
    for i in range(r.randint(1, 5)):
        v = Variant(f"V{i}", "unit")
        if plain is None and g.chance(0.2):
            # a payload the primitive cannot carry: every field has a default (README: `#[literal(..)] V { #[ghost({..})] x }`)
            v.shape = r.choice(["named", "tuple"])
            for j in range(r.randint(1, 2)):
                v.fields.append(Field(f"x{j}" if v.shape == "named" else None, r.choice(LEAF_TYPES), [Instr("ghost", "ghost", container=None, action=f"k{g.mark()}()", braced=True)]))
        ded = (len(cps) > 1 and g.chance(0.4)) or plain is not None
        if only_into or g.chance(0.7):
            if ded:
                for c in cps:
                    v.attrs.append(Instr("literal", "literal", container=c, tokens=str(g.mark())))
            else:
                v.attrs.append(Instr("literal", "literal", container=None, tokens=str(g.mark())))
        else:
            a = g.mark()
            for c in (cps if plain is not None else [None]):
                v.attrs.append(Instr("pattern", "pattern", container=c, tokens=r.choice([f"{a}..={a + 5}", f"{a} | {a + 1}", "_"])))
            for c in (cps if plain is not None else [None]):
                if any(k.startswith(("owned_into", "ref_into")) for t in it.attrs for k in kinds_of(t.name) if c is None or t.f["ty"] == c):
                    # README 'Using literals and patterns together': a pattern variant needs an into-only expression
                    if g.chance(0.06):
                        # a bare integer where the expression is expected is read as a member index (accepted; open finding F26 of C17)
                        v.attrs.append(Instr("into", "map", container=c, member=r.randint(0, 9), action=None))
                    else:
                        v.attrs.append(Instr("into", "map", container=c, member=None, action=f"k{g.mark()}()", braced=True))
        it.variants.append(v)
    return it


def struct_mixed_nests(g):
    """Nested counterpart structs whose form differs from the top level's, with a deeper struct only struct-level ghosts fill
    (`child_parents(h: H as (), h.1: N)` in a field-named struct; `child_parents(1: E as {}, 1 .m: M as {})` in a tuple struct)."""
    r = g.r
    k = g.mark()
    cps = r.sample(["A", "B", "m::C"], r.choice([1, 1, 2]))
    named = g.chance(0.5)
    it = Item("struct", "S", shape="named" if named else "tuple")
    it.attrs = g.trait_set(cps)
    it.meta["cps"] = cps
    n_in = r.randint(1, 2)            # members flattened into the nested struct
    n_plain = r.randint(0, 2)
    if named:
        top, deep = f"h{k}", f"h{k}.{n_in}"          # the ghost-only struct sits right after the mapped members of the tuple-form nest
        for j in range(n_in):
            it.fields.append(Field(f"a{j}", r.choice(LEAF_TYPES), [Instr("child", "child", container=None, path=top), Instr("map", "map", container=None, member=j, action=None)]))
        for j in range(n_plain):
            it.fields.insert(r.randint(0, len(it.fields)) if g.chance(0.5) else len(it.fields), Field(f"b{j}", r.choice(LEAF_TYPES)))
        ents = [dict(path=top, ty=f"H{k}", hint="()"), dict(path=deep, ty=f"N{k}", hint=r.choice([None, "{}"]))]
    else:
        idx = n_plain
        top, deep = f"{idx}", f"{idx} .m{k}"
        for j in range(n_plain):
            it.fields.append(Field(None, r.choice(LEAF_TYPES)))
        for j in range(n_in):
            it.fields.append(Field(None, r.choice(LEAF_TYPES), [Instr("child", "child", container=None, path=top), Instr("map", "map", container=None, member=f"s{k}_{j}", action=None)]))
        ents = [dict(path=top, ty=f"E{k}", hint="{}"), dict(path=deep, ty=f"M{k}", hint="{}")]     # its members are given by name (the ghosts), so it is declared field-named
    r.shuffle(ents)
    ded = None
    if len(cps) == 2 and g.chance(0.5):
        ded = cps[0]
        keep = [t for t in it.attrs if t.f["ty"] != cps[1] or not any(k in ("owned_into", "ref_into") for k in kinds_of(t.name))]
        if not any(t.f["ty"] == cps[1] for t in keep):
            keep.append(Instr(r.choice(["into_existing", "owned_into_existing", "ref_into_existing", "from_ref"]), "trait", ty=cps[1], hint=None, err=None, params=[]))
        it.attrs = keep
        for f in it.fields:
            for a in f.attrs:
                if a.kind == "map":
                    a.f["container"] = ded
    it.attrs.append(Instr("child_parents", "child_parents", container=ded, entries=ents))
    gh = [dict(path=deep, ident=f"g{g.mark()}", action=f"k{g.mark()}()") for _ in range(r.randint(1, 2))]
    it.attrs.append(Instr("ghosts", "ghosts", container=ded, entries=gh))
    r.shuffle(it.attrs)
    return it


def struct_unit(g):
    """Unit struct mapped to several counterparts; the counterparts' members come from struct-level ghosts (README 'Unit structs', test 38)."""
    r = g.r
    cps = r.sample(["A", "B", "m::C", "G<i32>"], r.choice([1, 2, 2, 3]))
    it = Item("struct", "S", shape="unit")
    it.attrs = g.trait_set(cps)
    it.meta["cps"] = cps
    for c in cps:
        form = r.choice(["none", "named", "tuple", "unit_hint"])
        into_like = any(not k.startswith("from") for t in it.attrs if t.kind == "trait" and t.f["ty"] == c for k in kinds_of(t.name))
        only_existing = into_like and all(k.endswith("existing") or k.startswith("from") for t in it.attrs if t.kind == "trait" and t.f["ty"] == c for k in kinds_of(t.name))
        if form == "none" or not into_like:
            continue
        if form == "unit_hint":
            for t in it.attrs:
                if t.kind == "trait" and t.f["ty"] == c:
                    t.f["hint"] = "Unit"
            continue
        if not only_existing or g.chance(0.5):
            for t in it.attrs:
                if t.kind == "trait" and t.f["ty"] == c:
                    t.f["hint"] = "{}" if form == "named" else "()"
        es = []
        for j in range(r.randint(1, 2)):
            k = g.mark()
            es.append(dict(path=None, ident=(f"g{k}" if form == "named" else j), action=f"k{k}()"))
        it.attrs.append(Instr(r.choice(["ghosts", "ghosts", "ghosts_owned"]), "ghosts", container=(c if (len(cps) > 1 or g.chance(0.5)) else None), entries=es))
    r.shuffle(it.attrs)
    return it


PROFILES = {
    "struct_unit": struct_unit,
    "struct_mixed_nests": struct_mixed_nests,
    "struct_basic": struct_basic,
    "struct_children": struct_children,
    "struct_parents": struct_parents,
    "enum_basic": enum_basic,
    "enum_prim": enum_prim,
}


def gen(g, profile=None):
    profile = profile or g.pick(["struct_basic", "struct_basic", "struct_basic", "struct_children", "struct_children", "struct_parents", "struct_parents", "enum_basic", "enum_basic", "enum_basic", "enum_basic",
                                 "enum_prim", "enum_prim", "struct_mixed_nests", "struct_unit"])
    it = PROFILES[profile](g)
    it.meta["profile"] = profile
    if getattr(g, "allow_unknown_p", 0.0) and g.chance(g.allow_unknown_p):
        # only switches the "unknown instruction" messages off: a rule-abiding input means the same with and without it
        it.attrs.insert(g.r.randint(0, len(it.attrs)), Instr("allow_unknown", "allow_unknown"))
        it.meta["allow_unknown"] = True
    return it


FOREIGN_ATTRS = ['serde(rename = "x")', 'doc = "text"', 'deprecated = "x"', 'must_use = "x"', "allow(dead_code)", "repr(C)", "cfg_attr(test, derive(Debug))", "doc(hidden)", "non_exhaustive",
                 "table_name = schema::ENTITIES", 'note = concat!("a", "b")', "builder(default)", "validate(length(min = 1))", "pin_project", 'path = "x.rs"', "rustfmt::skip",
                 # an attribute's argument is any delimited token tree: brackets and braces are as legal as parentheses
                 "sqlx[rename = \"x\"]", "layout{align = 8}", "getset[get, set]", "tag{}"]
TYPE_ONLY_FOREIGN = {"must_use", "repr", "non_exhaustive", "table_name", "pin_project"}


def add_foreign(g, it, n=1):
    """attributes that belong to the compiler or to other macros; o2o has to leave them alone"""
    from .model import Instr
    for _ in range(n):
        fa = g.pick(FOREIGN_ATTRS)
        name = re.split(r"[(\[{ :]", fa)[0]
        members = it.fields if it.kind == "struct" else it.variants
        if name in TYPE_ONLY_FOREIGN or not members or g.chance(0.5):
            it.attrs.insert(g.r.randint(0, len(it.attrs)), Instr("foreign", "foreign", text=fa))
        else:
            m = g.pick(members)
            m.attrs.insert(g.r.randint(0, len(m.attrs)), Instr("foreign", "foreign", text=fa))
    return it
