"""Level-R generator for C09: enums mapped to primitives through #[literal] / #[pattern] (README 'Mapping to primitive types')."""
from .model import Instr, Field, Variant, Item
from .rgen import PRELUDE

PRIMS = {"u8": (0, 255), "i8": (-128, 127), "i32": (-2**31, 2**31 - 1), "u64": (0, 2**64 - 1)}


class Arm:
    def __init__(self, vname, kind, data):
        self.vname, self.kind, self.data = vname, kind, data   # kind: lit | range | from | to | or | any


def lit(v, ty):
    return f"{v}" if v >= 0 else f"-{abs(v)}"


def gen_prim_case(g, cid):
    r = g.r
    pc = type("PrimCase", (), {})()
    pc.cid = cid
    pc.prim = r.choice(["u8", "u8", "i8", "i32", "u64", "str", "char"])
    pc.fallible = g.chance(0.4)
    pc.ref = g.chance(0.3) and pc.prim not in ("str",)
    pc.into = g.chance(0.6)
    nv = r.randint(1, 6)
    arms = []
    used = set()
    if pc.prim in PRIMS:
        lo, hi = PRIMS[pc.prim]
        span = min(hi - lo, 300)

        def val():
            return lo + r.randint(0, span) if g.chance(0.8) else r.choice([lo, hi, lo + 1, hi - 1, 0 if lo <= 0 else lo])
        for i in range(nv):
            roll = r.random()
            if roll < 0.5 or pc.into and roll < 0.65:
                v = val()
                tries = 0
                while v in used and tries < 20:
                    v = val()
                    tries += 1
                if v in used:
                    continue
                used.add(v)
                arms.append(Arm(f"V{i}", "lit", v))
            elif roll < 0.75:
                a = val()
                b = min(hi, a + r.randint(0, 40))
                arms.append(Arm(f"V{i}", "range", (a, b)))
            elif roll < 0.79 and not pc.ref:
                # a pattern that is nothing but a path to a constant (by-value conversions only: a constant does not match a reference)
                arms.append(Arm(f"V{i}", "path", r.choice(["MAX", "MIN"])))
            elif roll < 0.82:
                arms.append(Arm(f"V{i}", "from", val()))
            elif roll < 0.89:
                arms.append(Arm(f"V{i}", "to", val()))
            else:
                arms.append(Arm(f"V{i}", "or", sorted({val() for _ in range(r.randint(2, 3))})))
    elif pc.prim == "str":
        pool = ["a", "b", "~", "@", "dog", "cat", "", "x y", "ü", "q\\\"z"]
        r.shuffle(pool)
        for i in range(min(nv, 5)):
            if g.chance(0.7):
                arms.append(Arm(f"V{i}", "lit", pool.pop()))
            else:
                arms.append(Arm(f"V{i}", "or", [pool.pop(), pool.pop()]))
    else:
        pool = list("abcdefgh~@")
        r.shuffle(pool)
        for i in range(min(nv, 5)):
            roll = r.random()
            if roll < 0.6:
                arms.append(Arm(f"V{i}", "lit", pool.pop()))
            else:
                a = r.choice("abcdef")
                arms.append(Arm(f"V{i}", "range", (a, chr(ord(a) + r.randint(0, 3)))))
    if not arms:
        arms.append(Arm("V0", "lit", 1 if pc.prim in PRIMS else ("a")))
    pc.catch_all = g.chance(0.3) and pc.prim != "str" or (pc.prim == "str" and g.chance(0.3))
    pc.arms = arms
    pc.default = None
    if not pc.catch_all:
        pc.default = dict(mode=r.choice(["probe", "panic", "err"]), k=g.mark())
    # the variant the default case designates may be an S-only #[ghost({..})] variant without literal / pattern; with a diverging
    # default case a trailing #[ghost({..})] variant may follow the arms (the `_ =>` case must not depend on which variant is declared last)
    pc.dflt_ghost = g.chance(0.5)
    pc.tail_ghost = pc.default is not None and pc.default["mode"] != "probe" and g.chance(0.35)
    # an action-less #[ghost] variant between the arms: the Into instruction's own `_ => value` case serves it (and only it)
    pc.mid_ghost = g.chance(0.3)
    pc.mid_pos = g.r.random()
    return pc


def rty(pc):
    return {"str": "StaticStr"}.get(pc.prim, pc.prim)


def litsrc(pc, v):
    if pc.prim in PRIMS:
        return lit(v, pc.prim)
    if pc.prim == "str":
        return '"' + v + '"'
    return "'" + v + "'"


def pat_src(pc, a):
    if a.kind == "lit":
        return litsrc(pc, a.data)
    if a.kind == "range":
        return f"{litsrc(pc, a.data[0])}..={litsrc(pc, a.data[1])}"
    if a.kind == "from":
        return f"{litsrc(pc, a.data)}.."
    if a.kind == "to":
        return f"..={litsrc(pc, a.data)}"
    if a.kind == "or":
        return " | ".join(litsrc(pc, x) for x in a.data)
    if a.kind == "path":
        return f"{pc.prim}::{a.data}"
    return "_"


def cond_src(pc, a, x):
    if a.kind == "lit":
        return f"{x} == {litsrc(pc, a.data)}"
    if a.kind == "range":
        return f"({x} >= {litsrc(pc, a.data[0])} && {x} <= {litsrc(pc, a.data[1])})"
    if a.kind == "from":
        return f"{x} >= {litsrc(pc, a.data)}"
    if a.kind == "to":
        return f"{x} <= {litsrc(pc, a.data)}"
    if a.kind == "or":
        return "(" + " || ".join(f"{x} == {litsrc(pc, v)}" for v in a.data) + ")"
    if a.kind == "path":
        return f"{x} == {pc.prim}::{a.data}"
    return "true"


def render_case(pc, g):
    r = g.r
    P = rty(pc)
    fal = pc.fallible
    it = Item("enum", "S", vis="pub ")
    # trait instruction(s)
    dflt = []
    if pc.default:
        d = pc.default
        if d["mode"] == "panic" or (d["mode"] == "err" and not fal):
            e = f'panic!("d{d["k"]}")'
        elif d["mode"] == "err":
            e = f"Err(Er({d['k']}))?"
        else:
            e = f"{{ crate::rt::probe_mark({d['k']}); S::Dflt }}"
        dflt = [("default", "=> " + e)]
    names = []
    if pc.into:
        if pc.default and pc.default["mode"] == "probe":
            names = [("from_owned" if not pc.ref else "from_ref", dflt), ("owned_into" if not pc.ref else "ref_into", [])]
        else:
            names = [("map_owned" if not pc.ref else "map_ref", dflt)] if g.chance(0.5) else [("from_owned" if not pc.ref else "from_ref", dflt), ("owned_into" if not pc.ref else "ref_into", [])]
    else:
        names = [("from_owned" if not pc.ref else "from_ref", dflt)]
    mid = pc.into and getattr(pc, "mid_ghost", False)
    if mid:
        names = [("from_owned" if not pc.ref else "from_ref", dflt), ("owned_into" if not pc.ref else "ref_into", [("default", "=> " + litsrc(pc, unused_value(pc)))])]
    from .model import FALLIBLE_NAME
    for nm, ps in names:
        it.attrs.append(Instr(FALLIBLE_NAME[nm] if fal else nm, "trait", ty=P, hint=None, err="Er" if fal else None, params=ps))
    into_vals = {}
    for a in pc.arms:
        attrs = []
        if a.kind == "lit":
            attrs.append(Instr("literal", "literal", container=None, tokens=litsrc(pc, a.data)))
            into_vals[a.vname] = litsrc(pc, a.data)
        else:
            attrs.append(Instr("pattern", "pattern", container=None, tokens=pat_src(pc, a)))
            if pc.into:
                rep = a.data[0] if a.kind in ("range", "or") else a.data
                into_vals[a.vname] = litsrc(pc, rep) if a.kind != "path" else f"{pc.prim}::{a.data}"
                attrs.append(Instr("into" if g.chance(0.5) else ("owned_into" if not pc.ref else "ref_into"), "map", container=None, member=None, action=into_vals[a.vname], braced=True))
        it.variants.append(Variant(a.vname, "unit", [], attrs))
    if mid:
        it.variants.insert(int(pc.mid_pos * len(it.variants)), Variant("Mid", "unit", [], [Instr("ghost", "ghost", container=None, action=None)]))
        into_vals["Mid"] = litsrc(pc, unused_value(pc))
    if pc.catch_all:
        payload_ty = P
        fa = [Instr("from", "map", container=None, member=None, action=("*@" if pc.ref else "@"), braced=False)]
        va = [Instr("pattern", "pattern", container=None, tokens="_")]
        if pc.into:
            va.append(Instr("into", "map", container=None, member=None, action=("*f0" if pc.ref else "f0"), braced=True))
        it.variants.append(Variant("Other", "tuple", [Field(None, payload_ty, fa)], va))
    if pc.default and pc.default["mode"] == "probe":
        # the variant the default case designates; it is never produced by an arm
        if pc.dflt_ghost:
            it.variants.append(Variant("Dflt", "unit", [], [Instr("ghost", "ghost", container=None, action=litsrc(pc, unused_value(pc)), braced=True)]))
        else:
            it.variants.append(Variant("Dflt", "unit", [], [Instr("literal", "literal", container=None, tokens=litsrc(pc, unused_value(pc)))]))
        into_vals["Dflt"] = litsrc(pc, unused_value(pc))
    if pc.tail_ghost:
        it.variants.append(Variant("Gh", "unit", [], [Instr("ghost", "ghost", container=None, action=litsrc(pc, unused_value(pc)), braced=True)]))
        into_vals["Gh"] = litsrc(pc, unused_value(pc))
    derive_src = it.render(derive="#[derive(Clone, Debug, PartialEq, o2o::o2o)]")
    L = [PRELUDE, "pub type StaticStr = &'static str;", derive_src, ""]
    # reference: first matching arm in declaration order
    chain = []
    for a in pc.arms:
        chain.append(f"if {cond_src(pc, a, 'v')} {{ return {'Ok(' if fal else ''}S::{a.vname}{')' if fal else ''}; }}")
    if pc.default and pc.default["mode"] == "probe" and not pc.dflt_ghost:
        chain.append(f"if v == {litsrc(pc, unused_value(pc))} {{ return {'Ok(' if fal else ''}S::Dflt{')' if fal else ''}; }}")
    if pc.catch_all:
        tail = f"{'Ok(' if fal else ''}S::Other(v){')' if fal else ''}"
    else:
        d = pc.default
        if d["mode"] == "panic" or (d["mode"] == "err" and not fal):
            tail = f'panic!("d{d["k"]}")'
        elif d["mode"] == "err":
            tail = f"Err(Er({d['k']}))"
        else:
            tail = f"{{ crate::rt::probe_mark({d['k']}); {'Ok(' if fal else ''}S::Dflt{')' if fal else ''} }}"
    L.append(f"#[allow(unreachable_code, unused_comparisons)] fn ref_from(v: {P}) -> {'Result<S, Er>' if fal else 'S'} {{ {' '.join(chain)} {tail} }}")
    if pc.into:
        arms = [f"S::{n} => {v}," for n, v in into_vals.items()]
        if pc.catch_all:
            arms.append("S::Other(x) => *x,")
        L.append(f"fn ref_into(s: &S) -> {P} {{ match s {{ {' '.join(arms)} }} }}")
    # driver
    tag = f"c{pc.cid}{'f' if fal else 'i'}"
    D = ["pub fn run(log: &mut crate::rt::Log) {", f"    let mut r = crate::rt::Rng::new({pc.cid + 9000});"]
    if pc.prim in ("u8", "i8"):
        D.append(f"    let vals: Vec<{P}> = ({P}::MIN..={P}::MAX).collect();")
    elif pc.prim in PRIMS:
        pts = set()
        lo, hi = PRIMS[pc.prim]
        for a in pc.arms:
            ds = a.data if isinstance(a.data, (list, tuple)) else [a.data]
            if a.kind == "path":
                ds = [PRIMS[pc.prim][1] if a.data == "MAX" else PRIMS[pc.prim][0]]
            for x in ds:
                for y in (x - 1, x, x + 1):
                    if lo <= y <= hi:
                        pts.add(y)
        pts |= {lo, hi, 0 if lo <= 0 else lo}
        D.append(f"    let mut vals: Vec<{P}> = vec![" + ", ".join(litsrc(pc, x) for x in sorted(pts)) + "];")
        D.append(f"    for _ in 0..24 {{ vals.push(r.{P}()); }}")
    elif pc.prim == "str":
        allv = set()
        for a in pc.arms:
            allv |= set(a.data if isinstance(a.data, list) else [a.data])
        allv |= {"zz", "A", " "}
        D.append("    let vals: Vec<StaticStr> = vec![" + ", ".join('"' + x + '"' for x in sorted(allv)) + "];")
    else:
        D.append("    let vals: Vec<char> = ('a'..='k').chain(['~', '@', 'Z', '\\u{0}']).collect();")
    frm = ("S::try_from(&v)" if pc.ref else "S::try_from(v)") if fal else ("S::from(&v)" if pc.ref else "S::from(v)")
    nm = ("try_" if fal else "") + ("from_ref" if pc.ref else "from_owned")
    D.append("    for (d, v) in vals.iter().enumerate() { let v = *v;")
    D.append(f'        log.ev("{tag}", "{nm}", d, &format!("{{:?}}", v), &crate::rt::guard(|| {frm}), &crate::rt::guard(|| ref_from(v)));')
    D.append("    }")
    if pc.into:
        inm = ("try_" if fal else "") + ("ref_into" if pc.ref else "owned_into")
        into_call = ("{ let x: Result<" + P + ", Er> = " + ("s" if pc.ref else "s.clone()") + ".try_into(); x }") if fal else ("{ let x: " + P + " = " + ("s" if pc.ref else "s.clone()") + ".into(); x }")
        want = "Ok::<_, Er>(ref_into(s))" if fal else "ref_into(s)"
        vs = [f"S::{n}" for n in into_vals] + (["S::Other(vals[0])", "S::Other(vals[vals.len() - 1])"] if pc.catch_all else [])
        D.append("    let ss: Vec<S> = vec![" + ", ".join(vs) + "];")
        D.append("    for (d, s) in ss.iter().enumerate() {")
        D.append(f'        log.ev("{tag}", "{inm}", d, &format!("{{:?}}", s), &crate::rt::guard(|| {into_call}), &crate::rt::guard(|| {want}));')
        # round trip: variant -> primitive -> variant (compared with the reference composition)
        back = ("S::try_from(&p)" if pc.ref else "S::try_from(p)") if fal else ("S::from(&p)" if pc.ref else "S::from(p)")
        D.append(f'        let p: {P} = ref_into(s);')
        D.append(f'        log.ev("{tag}", "roundtrip", d, &format!("{{:?}}", s), &crate::rt::guard(|| {back}), &crate::rt::guard(|| ref_from(p)));')
        D.append("    }")
    D.append("}")
    return "\n".join(L + D) + "\n", derive_src


def unused_value(pc):
    used = set()
    for a in pc.arms:
        ds = a.data if isinstance(a.data, (list, tuple)) else [a.data]
        if a.kind == "path":
            ds = [PRIMS[pc.prim][1] if a.data == "MAX" else PRIMS[pc.prim][0]]
        used |= set(ds)
    if pc.prim in PRIMS:
        lo, hi = PRIMS[pc.prim]
        cands = [x for x in range(lo, min(hi, lo + 400)) if x not in used]
        return cands[len(cands) // 2] if cands else lo
    if pc.prim == "str":
        return "dflt"
    return "Q"


# ---------------------------------------------------------------------------------------------------------------
# two primitive counterparts with default and dedicated literals (README 'Mapping to multiple structs' applied to literals)

def gen_two_prim_case(g, cid):
    r = g.r
    pc = type("PrimCase", (), {})()
    pc.cid = cid
    pc.prim = "u8+i32"
    pc.two = True
    pc.fallible = g.chance(0.3)
    pc.ref = False
    pc.into = True
    pc.catch_all = False
    pc.default = dict(mode="panic", k=g.mark())
    pc.arms = []
    used8, used32 = set(), set()
    pc.variants = []
    for i in range(r.randint(1, 5)):
        a = r.randint(0, 255)
        while a in used8:
            a = r.randint(0, 255)
        used8.add(a)
        b = r.randint(-1000, 1000)
        while b in used32:
            b = r.randint(-1000, 1000)
        used32.add(b)
        form = r.choice(["default_first", "dedicated_first", "both_dedicated", "both_dedicated_rev"])
        pc.variants.append(dict(name=f"V{i}", u8=a, i32=b, form=form, w8=0, w32=0))
        pc.arms.append(Arm(f"V{i}", "lit", a))
    # From-only flavour with ranges: default and dedicated #[pattern]s on the same variant
    pc.pats = g.chance(0.45)
    if pc.pats:
        pc.into = False
        for v in pc.variants:
            if g.chance(0.7):
                v["w8"] = r.randint(1, 12)
                v["w32"] = r.randint(1, 12)
                v["u8"] = min(v["u8"], 255 - v["w8"])
                if g.chance(0.6):
                    v["i32"] = r.randint(0, 200)     # the default (i32) range would also type-check as u8
    return pc


def render_two_prim_case(pc, g):
    fal = pc.fallible
    from .model import FALLIBLE_NAME
    it = Item("enum", "S", vis="pub ")
    d = pc.default
    dflt = [("default", f'=> panic!("d{d["k"]}")')]
    for P in ("u8", "i32"):
        nm = "map_owned" if pc.into else "from_owned"
        it.attrs.append(Instr(FALLIBLE_NAME[nm] if fal else nm, "trait", ty=P, hint=None, err="Er" if fal else None, params=dflt))
    for v in pc.variants:
        # the default literal is the i32 one; the u8 counterpart has a dedicated literal
        if v["w8"]:
            p8, p32 = f"{v['u8']}..={v['u8'] + v['w8']}", f"{lit(v['i32'], 'i32')}..={lit(v['i32'] + v['w32'], 'i32')}"
            mk = lambda c, t: Instr("pattern", "pattern", container=c, tokens=t)
            attrs = {"default_first": [mk(None, p32), mk("u8", p8)], "dedicated_first": [mk("u8", p8), mk(None, p32)],
                     "both_dedicated": [mk("u8", p8), mk("i32", p32)], "both_dedicated_rev": [mk("i32", p32), mk("u8", p8)]}[v["form"]]
        elif v["form"] == "default_first":
            attrs = [Instr("literal", "literal", container=None, tokens=lit(v["i32"], "i32")), Instr("literal", "literal", container="u8", tokens=str(v["u8"]))]
        elif v["form"] == "dedicated_first":
            attrs = [Instr("literal", "literal", container="u8", tokens=str(v["u8"])), Instr("literal", "literal", container=None, tokens=lit(v["i32"], "i32"))]
        elif v["form"] == "both_dedicated":
            attrs = [Instr("literal", "literal", container="u8", tokens=str(v["u8"])), Instr("literal", "literal", container="i32", tokens=lit(v["i32"], "i32"))]
        else:
            attrs = [Instr("literal", "literal", container="i32", tokens=lit(v["i32"], "i32")), Instr("literal", "literal", container="u8", tokens=str(v["u8"]))]
        it.variants.append(Variant(v["name"], "unit", [], attrs))
    derive_src = it.render(derive="#[derive(Clone, Debug, PartialEq, o2o::o2o)]")
    L = [PRELUDE, derive_src, ""]
    for P in ("u8", "i32"):
        W = {"u8": "w8", "i32": "w32"}[P]
        chain = " ".join(f"if v >= {lit(v[P], P)} && v <= {lit(v[P] + v[W], P)} {{ return {'Ok(' if fal else ''}S::{v['name']}{')' if fal else ''}; }}" for v in pc.variants)
        L.append(f"#[allow(unreachable_code)] fn ref_from_{P}(v: {P}) -> {'Result<S, Er>' if fal else 'S'} {{ {chain} panic!(\"d{d['k']}\") }}")
        if pc.into:
            L.append(f"fn ref_into_{P}(s: &S) -> {P} {{ match s {{ " + " ".join(f"S::{v['name']} => {lit(v[P], P)}," for v in pc.variants) + " } }")
    tag = f"c{pc.cid}{'f' if fal else 'i'}"
    pre = "try_" if fal else ""
    D = ["pub fn run(log: &mut crate::rt::Log) {"]
    D.append("    let v8: Vec<u8> = (u8::MIN..=u8::MAX).collect();")
    pts = sorted({x for v in pc.variants for x in (v["i32"] - 1, v["i32"], v["i32"] + 1, v["i32"] + v["w32"], v["i32"] + v["w32"] + 1)} | {v["u8"] for v in pc.variants} | {v["u8"] + v["w8"] for v in pc.variants})
    D.append("    let v32: Vec<i32> = vec![" + ", ".join(lit(x, "i32") for x in pts) + "];")
    for P, vec in (("u8", "v8"), ("i32", "v32")):
        frm = f"<S as TryFrom<{P}>>::try_from(v)" if fal else f"<S as From<{P}>>::from(v)"
        D.append(f"    for (d, v) in {vec}.iter().enumerate() {{ let v = *v;")
        D.append(f'        log.ev("{tag}", "{pre}from_owned:{P}", d, &format!("{{:?}}", v), &crate::rt::guard(|| {frm}), &crate::rt::guard(|| ref_from_{P}(v)));')
        D.append("    }")
    if not pc.into:
        D.append("}")
        return "\n".join(L + D) + "\n", derive_src
    D.append("    let ss: Vec<S> = vec![" + ", ".join(f"S::{v['name']}" for v in pc.variants) + "];")
    D.append("    for (d, s) in ss.iter().enumerate() {")
    for P in ("u8", "i32"):
        call = f"{{ let x: Result<{P}, Er> = s.clone().try_into(); x }}" if fal else f"{{ let x: {P} = s.clone().into(); x }}"
        want = f"Ok::<_, Er>(ref_into_{P}(s))" if fal else f"ref_into_{P}(s)"
        D.append(f'        log.ev("{tag}", "{pre}owned_into:{P}", d, &format!("{{:?}}", s), &crate::rt::guard(|| {call}), &crate::rt::guard(|| {want}));')
    D += ["    }", "}"]
    return "\n".join(L + D) + "\n", derive_src
