"""Fault injection for C15 (and multi-error workloads for C19/C13/C16): the documented misuse
classes, each injected into a valid base input at a chosen position, with the diagnostic the
project's own test-suite documents for it (o2o-impl/src/tests.rs message strings, transcribed)."""
import re
from .model import Instr, Field, Variant, kinds_of, FALLIBLE_NAME

POSTFIX = " To turn this message off, use #[o2o(allow_unknown)]"


class Fault:
    def __init__(self, cls, sub, expect, parse_stage=False, where=""):
        self.cls, self.sub, self.expect, self.parse_stage, self.where = cls, sub, expect, parse_stage, where

    def key(self):
        return f"{self.cls}/{self.sub}"


def _ins(lst, pos, x):
    """insert x into lst at a position class: 'first' | 'middle' | 'last'"""
    i = {"first": 0, "middle": len(lst) // 2, "last": len(lst)}[pos]
    lst.insert(i, x)
    return i


def _members(it):
    return it.fields if it.kind == "struct" else it.variants


def _pick_member(it, pos):
    ms = _members(it)
    if not ms:
        return None
    return ms[{"first": 0, "middle": len(ms) // 2, "last": len(ms) - 1}[pos]]


def _trait_instrs(it):
    return [a for a in it.attrs if a.kind == "trait"]


def _has_kind(it, pred):
    return any(pred(k) for t in _trait_instrs(it) for k in kinds_of(t.name))


def _fresh(g, prefix="Z"):
    return f"{prefix}{g.mark()}"


def _hint_ok_for_new_cp(it):
    return True


# every injector: (item, g, pos, spell) -> Fault or None ; mutates item in place -------------------

def f_no_trait(it, g, pos, spell):
    it.attrs = [a for a in it.attrs if a.kind != "trait"]
    return Fault("no_trait", "-", ["At least one trait instruction is expected."])


def f_dup_trait(it, g, pos, spell):
    ts = _trait_instrs(it)
    if not ts:
        return None
    t = ts[{"first": 0, "middle": len(ts) // 2, "last": len(ts) - 1}[pos]]
    c = t.copy()
    c.f["params"] = []
    c.spelling = spell
    it.attrs.insert(g.r.randint(0, len(it.attrs)), c)
    return Fault("dup_trait", "fallible" if t.f.get("err") else "infallible", ["Ident here must be unique."])


def f_missing_err(it, g, pos, spell):
    ts = [t for t in _trait_instrs(it) if t.f.get("err")]
    if ts and g.chance(0.6):
        t = ts[{"first": 0, "middle": len(ts) // 2, "last": len(ts) - 1}[pos]]
        t.f["err"] = None
        sub = "existing"
    else:
        nm = g.pick(["try_from_owned", "try_from_ref", "try_from"])
        _ins(it.attrs, pos, Instr(nm, "trait", ty=_fresh(g), hint=None, err=None, params=[], spelling=spell))
        sub = "added"
    return Fault("err_type", "missing/" + sub, ["Error type should be specified for fallible instruction."])


def f_superfluous_err(it, g, pos, spell):
    ts = [t for t in _trait_instrs(it) if not t.f.get("err")]
    if ts and g.chance(0.6):
        t = ts[{"first": 0, "middle": len(ts) // 2, "last": len(ts) - 1}[pos]]
        t.f["err"] = "Esup"
        sub = "existing"
    else:
        nm = g.pick(["from_owned", "from_ref", "from"])
        _ins(it.attrs, pos, Instr(nm, "trait", ty=_fresh(g), hint=None, err="Esup", params=[], spelling=spell))
        sub = "added"
    return Fault("err_type", "superfluous/" + sub, ["Error type should not be specified for infallible instruction."])


def f_unknown_dedicated(it, g, pos, spell):
    zz = _fresh(g, "ZZ")
    msg = f"Type '{zz}' doesn't match any type specified in trait instructions."
    opts = ["t_ghosts", "t_where", "m_map", "m_ghost"]
    if it.kind == "struct":
        opts += ["t_child_parents", "m_parent", "m_child"]
    else:
        opts += ["v_literal", "v_pattern", "v_type_hint"]
    o = g.pick(opts)
    k = g.mark()
    if o == "t_ghosts":
        ident = f"g{k}" if (it.kind == "enum" or it.shape == "named") else 9
        _ins(it.attrs, pos, Instr(g.pick(["ghosts", "ghosts_owned", "ghosts_ref"]), "ghosts", container=zz, entries=[dict(path=None, ident=ident, action=f"k{k}()")], spelling=spell))
    elif o == "t_where":
        _ins(it.attrs, pos, Instr("where_clause", "where_clause", container=zz, preds=f"T{k}: Clone", spelling=spell))
    elif o == "t_child_parents":
        _ins(it.attrs, pos, Instr("child_parents", "child_parents", container=zz, entries=[dict(path=f"a{k}", ty=f"A{k}", hint=None)], spelling=spell))
    else:
        m = _pick_member(it, pos)
        if m is None:
            return None
        if o == "m_map":
            m.attrs.append(Instr(g.pick(["map", "from", "into_existing", "try_map_ref", "owned_into"]), "map", container=zz, member=f"m{k}", action=None, spelling=spell))
        elif o == "m_ghost":
            m.attrs.append(Instr(g.pick(["ghost", "ghost_owned", "ghost_ref"]), "ghost", container=zz, action=f"k{k}()", braced=True, spelling=spell))
        elif o == "m_parent":
            m.attrs.append(Instr("parent", "parent", container=zz, fields=None, spelling=spell))
        elif o == "m_child":
            m.attrs.append(Instr("child", "child", container=zz, path=f"a{k}", spelling=spell))
        elif o == "v_literal":
            m.attrs.append(Instr("literal", "literal", container=zz, tokens=str(k), spelling=spell))
        elif o == "v_pattern":
            m.attrs.append(Instr("pattern", "pattern", container=zz, tokens="_", spelling=spell))
        elif o == "v_type_hint":
            m.attrs.append(Instr("type_hint", "type_hint", container=zz, hint="()", spelling=spell))
    return Fault("unknown_dedicated", o, [msg])


def f_duplicate(it, g, pos, spell):
    opts = ["t_where_default", "t_ghosts_default", "t_where_dedicated", "t_ghosts_dedicated"]
    if it.kind == "struct":
        opts += ["t_child_parents_default", "t_child_parents_dedicated", "m_parent_default", "m_parent_dedicated"]
    else:
        opts += ["v_literal_default", "v_pattern_default", "v_type_hint_default", "v_literal_dedicated"]
    o = g.pick(opts)
    cps = [t.f["ty"] for t in _trait_instrs(it)]
    if not cps:
        return None
    cp = g.pick(cps)
    named = it.kind == "enum" or it.shape == "named"

    def two(make):
        a, b = make(), make()
        _ins(it.attrs, pos, a)
        it.attrs.insert(g.r.randint(0, len(it.attrs)), b)

    k = g.mark()
    if o.startswith("t_where"):
        ded = o.endswith("dedicated")
        it.attrs = [a for a in it.attrs if not (a.kind == "where_clause" and ((a.container() is None) if not ded else (a.container() == cp)))]
        two(lambda: Instr("where_clause", "where_clause", container=cp if ded else None, preds=f"T{g.mark()}: Clone", spelling=spell))
        msg = f"Dedicated #[where_clause(...)] instruction for type {_pstr(cp)} is already defined." if ded else "There can be at most one default #[where_clause(...)] instruction."
    elif o.startswith("t_ghosts"):
        ded = o.endswith("dedicated")
        nm = g.pick(["ghosts", "ghosts_owned", "ghosts_ref"])
        two(lambda: Instr(nm, "ghosts", container=cp if ded else None, entries=[dict(path=None, ident=(f"g{g.mark()}" if named else 9), action="k()")], spelling=spell))
        msg = f"Dedicated #[ghosts(...)] instruction for type {_pstr(cp)} is already defined." if ded else "There can be at most one default #[ghosts(...)] instruction."
    elif o.startswith("t_child_parents"):
        ded = o.endswith("dedicated")
        two(lambda: Instr("child_parents", "child_parents", container=cp if ded else None, entries=[dict(path=f"a{g.mark()}", ty="A", hint=None)], spelling=spell))
        msg = f"Dedicated #[child_parents(...)] instruction for type {_pstr(cp)} is already defined." if ded else "There can be at most one default #[child_parents(...)] instruction."
    else:
        m = _pick_member(it, pos)
        if m is None:
            return None
        ded = o.endswith("dedicated")
        nm = o.split("_")[1] if not o.startswith("v_type_hint") else "type_hint"

        def mk():
            c = cp if ded else None
            if nm == "parent":
                return Instr("parent", "parent", container=c, fields=None, spelling=spell)
            if nm == "literal":
                return Instr("literal", "literal", container=c, tokens=str(g.mark()), spelling=spell)
            if nm == "pattern":
                return Instr("pattern", "pattern", container=c, tokens="_", spelling=spell)
            return Instr("type_hint", "type_hint", container=c, hint="()", spelling=spell)
        m.attrs += [mk(), mk()]
        msg = (f"Dedicated #[{nm}(...)] instruction for type {_pstr(cp)} is already defined." if ded
               else f"There can be at most one default #[{nm}(...)] instruction for a given member.")
    return Fault("duplicate", o, [msg])


def _pstr(cp):
    """TypePath.path_str as syn prints a path (tokens separated by spaces)."""
    s = cp
    s = re.sub(r"::", " :: ", s)
    s = re.sub(r"<", " < ", s)
    s = re.sub(r">", " > ", s)
    s = re.sub(r",", " , ", s)
    s = re.sub(r"\s+", " ", s).strip()
    s = s.replace("' ", "'")
    return s


def f_misplaced(it, g, pos, spell):
    own = spell == "o2o"
    pf = "" if own else POSTFIX
    enum = it.kind == "enum"
    t_opts = {
        "t_parent": ("parent", None, (f"Member instruction 'parent' is not applicable to enums.{pf}" if enum else f"Member instruction 'parent' should be used on a member.{pf}")),
        "t_ghost": ("ghost", "{k()}", f"Perhaps you meant 'ghosts'?{pf}"),
        "t_children": ("children", "a: A", f"Perhaps you meant 'child_parents'?{pf}"),
        "t_child": ("child", "a", (f"Member instruction 'child' is not applicable to enums.{pf}" if enum else f"Perhaps you meant 'child_parents'?{pf}")),
        "t_literal": ("literal", "1", f"Member instruction 'literal' should be used on a member.{pf}"),
        "t_pattern": ("pattern", "_", f"Member instruction 'pattern' should be used on a member.{pf}"),
        "t_type_hint": ("type_hint", "as ()", f"Member instruction 'type_hint' should be used on a member.{pf}"),
    }
    m_opts = {
        "m_child_parents": ("child_parents", "a: A", f"Perhaps you meant 'child'?{pf}"),
        "m_children": ("children", "a: A", (f"Struct instruction 'children' is not applicable to enums.{pf}" if enum else f"Perhaps you meant 'child'?{pf}")),
        "m_where": ("where_clause", "T: Clone", f"Struct instruction 'where_clause' should be used on a struct.{pf}"),
    }
    if own:
        t_opts["t_ghost_ref"] = ("ghost_ref", "{k()}", "Perhaps you meant 'ghosts_ref'?")   # no bare form: only reachable through #[o2o(..)]
        t_opts["t_unknown"] = (f"foo{g.mark()}", "x", None)
        m_opts["m_unknown"] = (f"bar{g.mark()}", "x", None)
        t_opts["t_as_type"] = ("as_type", "i32", (f"Member instruction 'as_type' is not applicable to enums." if enum else f"Member instruction 'as_type' should be used on a member."))
        t_opts["t_stop_repeat"] = ("stop_repeat", None, f"Member instruction 'stop_repeat' should be used on a member.")
        m_opts["m_allow_unknown"] = ("allow_unknown", None, "Struct instruction 'allow_unknown' should be used on a struct.")
    if not enum:
        m_opts["f_literal"] = ("literal", "1", "Instruction #[literal(...)] is not supported for this member.")
        m_opts["f_pattern"] = ("pattern", "_", "Instruction #[pattern(...)] is not supported for this member.")
        m_opts["f_type_hint"] = ("type_hint", "as ()", "Instruction #[type_hint(...)] is not supported for this member.")
        m_opts["f_ghosts"] = ("ghosts", "g: {k()}", "Instruction #[ghosts(...)] is not supported for this member.")
    else:
        m_opts["v_parent"] = ("parent", None, "Instruction #[parent(...)] is not supported for this member.")
    if g.chance(0.5):
        o = g.pick(sorted(t_opts))
        nm, args, msg = t_opts[o]
        if msg is None:
            msg = f"Struct instruction '{nm}' is not supported."
        _ins(it.attrs, pos, Instr(nm, "raw", args=args, spelling=spell))
    else:
        o = g.pick(sorted(m_opts))
        nm, args, msg = m_opts[o]
        if msg is None:
            msg = f"Member instruction '{nm}' is not supported."
        m = _pick_member(it, pos)
        if m is None:
            return None
        m.attrs.insert(g.r.randint(0, len(m.attrs)), Instr(nm, "raw", args=args, spelling=spell))
    return Fault("misplaced", o + ("/own" if own else "/bare"), [msg])


FROM_NAMES = ["from_owned", "from_ref", "try_from_owned", "try_from_ref", "from", "try_from", "map_ref", "try_map_owned"]
INTO_NAMES = ["owned_into", "ref_into", "owned_try_into", "ref_try_into", "into", "try_into", "map_owned", "try_map_ref"]


def _new_counterpart(it, g, pos, names, spell):
    """a fresh counterpart that is requested by exactly one trait instruction: the rule under test then depends on how that
    one (kind, fallibility) is treated"""
    zn = _fresh(g)
    nm = g.pick(names)
    fal = nm.startswith("try") or "_try_" in nm
    _ins(it.attrs, pos, Instr(nm, "trait", ty=zn, hint=None, err="En" if fal else None, params=[], spelling="bare"))
    return zn, nm


def f_ghost_no_default(it, g, pos, spell):
    if it.kind != "struct" or it.shape == "unit":
        return None
    zn, nm = _new_counterpart(it, g, pos, FROM_NAMES, spell)
    named = it.shape == "named"
    name = f"gh{g.mark()}" if named else None
    gname = g.pick(["ghost", "ghost", "ghost_owned", "ghost_ref"])
    # ghost_owned / ghost_ref only concern the owned / by-reference kinds
    covers_owned = nm in ("from_owned", "try_from_owned", "from", "try_from", "try_map_owned")
    covers_ref = nm in ("from_ref", "try_from_ref", "from", "try_from", "map_ref")
    if (gname == "ghost_owned" and not covers_owned) or (gname == "ghost_ref" and not covers_ref):
        gname = "ghost"
    f = Field(name, "i32", [Instr(gname, "ghost", container=zn, action=None, bar=False, spelling=spell)])
    others = [t.f["ty"] for t in _trait_instrs(it) if t.f["ty"] != zn]
    sub = ""
    if others and g.chance(0.5):
        # the same member is a rule-abiding ghost (with default) for another counterpart, written before or after the faulty one
        ok = Instr("ghost", "ghost", container=g.pick(others), action=f"k{g.mark()}()", braced=True, spelling=spell)
        if g.chance(0.6):
            f.attrs.insert(0, ok)
            sub = "/after_valid_ghost"
        else:
            f.attrs.append(ok)
            sub = "/before_valid_ghost"
    if named and g.chance(0.35):
        # another instruction for the same counterpart does carry `..update`: that exempts only itself
        other = g.pick(["owned_into", "ref_into"] + [x for x in ("from_owned", "from_ref", "try_from_owned", "try_from_ref") if not (set(kinds_of(x)) & set(kinds_of(nm))) or (x.startswith("try") != (nm.startswith("try") or "_try_" in nm))])
        fal2 = other.startswith("try")
        if not any(t.name == other and t.f["ty"] == zn for t in _trait_instrs(it)) and not (set(kinds_of(other)) & set(kinds_of(nm)) and fal2 == (nm.startswith("try") or "_try_" in nm)):
            it.attrs.insert(g.r.randint(0, len(it.attrs)), Instr(other, "trait", ty=zn, hint=None, err="Eu" if fal2 else None, params=[("update", f"k{g.mark()}()")], spelling="bare"))
            sub += "/sibling_with_update"
    i = _ins(it.fields, pos, f)
    mname = name if named else str(i)
    return Fault("ghost_no_default", f"{gname}/{nm}{sub}", [f"Member instruction #[ghost(...)] for member '{mname}' should provide default value for type {zn}"])


def f_child_no_parents(it, g, pos, spell):
    if it.kind != "struct" or it.shape == "unit":
        return None
    zn, nm = _new_counterpart(it, g, pos, INTO_NAMES, spell)
    named = it.shape == "named"
    p = f"zz{g.mark()}"
    f = Field(f"ch{g.mark()}" if named else None, "i32", [Instr("child", "child", container=zn, path=p, spelling=spell)])
    _ins(it.fields, pos, f)
    if g.chance(0.35) and not any(a.kind == "child_parents" for a in it.attrs):
        # the path is listed in a default #[child_parents], but the counterpart has its own, dedicated list - which lacks it
        it.attrs.insert(0, Instr("child_parents", "child_parents", container=None, entries=[dict(path=p, ty=f"T{g.mark()}", hint=None)]))
        it.attrs.append(Instr("child_parents", "child_parents", container=zn, entries=[dict(path=f"other{g.mark()}", ty=f"U{g.mark()}", hint=None)]))
        return Fault("child_no_parents", nm + "/dedicated_list_incomplete", [f"Missing '{p}: [Type Path]' instruction for type {zn}"])
    # with a default #[child_parents(..)] in scope the missing *entry* is named, otherwise the missing instruction
    return Fault("child_no_parents", nm, [re.compile(r"^Missing (#\[child_parents\(\.\.\.\)\] instruction for " + zn + r"|'" + p + r": \[Type Path\]' instruction for type " + zn + r")$")])


def f_shape_mismatch(it, g, pos, spell):
    """tuple struct / tuple variant mapped to a named counterpart without member names."""
    if it.kind == "struct":
        if it.shape != "tuple" or not it.fields:
            return None
        zn = _fresh(g)
        form = g.pick(["no_instruction", "no_instruction", "action_only_into", "empty_from"])
        if form == "action_only_into":
            nm = g.pick(["owned_into", "ref_into", "owned_into_existing", "ref_into_existing", "owned_try_into", "ref_try_into", "owned_try_into_existing", "ref_try_into_existing"])
        elif form == "empty_from":
            nm = g.pick(["from_owned", "from_ref", "try_from_owned", "try_from_ref"])
        else:
            nm = g.pick(["owned_into", "from_owned", "ref_into", "from_ref", "try_from_ref", "try_from_owned", "owned_try_into", "ref_try_into", "ref_into_existing", "owned_try_into_existing"])
        fal = nm.startswith("try") or "_try_" in nm
        _ins(it.attrs, pos, Instr(nm, "trait", ty=zn, hint="{}", err="Em" if fal else None, params=[], spelling=spell))
        f = Field(None, "i32")
        i = _ins(it.fields, pos, f)
        if form != "no_instruction":
            # every other member names its field for the new counterpart: the injected member is the only thing wrong
            for of in it.fields:
                if of is not f:
                    of.attrs.append(Instr("map", "map", container=zn, member=f"n{g.mark()}", action=None))
        if form == "action_only_into":
            # an expression alone does not name the counterpart's field (o2o-impl/src/tests.rs: incomplete_field_attr_instruction)
            mi = g.pick(["into", "into", nm if "try" not in nm else "into"])
            f.attrs.append(Instr(mi, "map", container=None, member=None, action=f"k{g.mark()}()", braced=True, spelling=spell))
            return Fault("shape_mismatch", "struct/action_only_into", [f"Member trait instruction #[{mi}(...)] for member {i} should specify corresponding field name of the {zn}"])
        if form == "empty_from":
            f.attrs.append(Instr("from", "map", container=None, member=None, action=None, parens=True, spelling=spell))
            return Fault("shape_mismatch", "struct/empty_from", [f"Member trait instruction #[from(...)] for member {i} should specify corresponding field name of the {zn} or an action"])
        return Fault("shape_mismatch", "struct", [re.compile(r"^Member " + str(i) + r" should have member trait instruction with field name")])
    else:
        if all(any(p[0] == "return" for p in (t.f.get("params") or [])) for t in _trait_instrs(it)):
            return None     # a quick return replaces the body: member names are not needed and the rule does not apply
        # (the rule is about instructions that render the variant: one with a quick return does not)
        into_plain = any(not any(p_[0] == "return" for p_ in (t.f.get("params") or [])) and any(not k.startswith("from") for k in kinds_of(t.name)) for t in _trait_instrs(it))
        if into_plain and g.chance(0.4):
            # an expression alone does not name the counterpart variant's field for the Into direction
            mi = g.pick(["into", "map"])      # applicable to every Into kind (through the fallback chain)
            v = Variant(f"Vm{g.mark()}", "tuple", [Field(None, "i32", [Instr(mi, "map", container=None, member=None, action=f"k{g.mark()}()", braced=True, spelling=spell)])],
                        [Instr("type_hint", "type_hint", container=None, hint="{}", spelling=spell)])
            _ins(it.variants, pos, v)
            return Fault("shape_mismatch", "variant/action_only_into", [re.compile(r"^Member trait instruction #\[" + mi + r"\(\.\.\.\)\] for member 0 should specify corresponding field name of the ")])
        v = Variant(f"Vm{g.mark()}", "tuple", [Field(None, "i32")], [Instr("type_hint", "type_hint", container=None, hint="{}", spelling=spell)])
        _ins(it.variants, pos, v)
        return Fault("shape_mismatch", "variant", [re.compile(r"^Member 0 of a variant " + v.name + r" should have member trait instruction with field name")])


def f_untyped_parent(it, g, pos, spell):
    if it.kind != "struct" or it.shape != "named":
        return None
    zn, nm = _new_counterpart(it, g, pos, FROM_NAMES, spell)
    k = g.mark()
    form = g.pick(["one_level", "outer_of_two", "inner_of_two"])
    if form == "one_level":
        args = f"a{k}, [parent(b{k}, c{k})] q{k}"
    elif form == "outer_of_two":
        args = f"a{k}, [parent([parent(b{k}, c{k})] mid{k}: Mid{k})] q{k}"
    else:
        args = f"a{k}, [parent([parent(b{k}, c{k})] q{k})] out{k}: Out{k}"
    f = Field(f"pp{k}", f"P{k}", [Instr("parent", "parent", container=zn, fields=args, spelling=spell)])
    _ins(it.fields, pos, f)
    return Fault("untyped_parent", f"{form}/{nm}", [f"Field 'q{k}' should have type here, e.g. 'q{k}: SomeStruct'"])


INTO_ALL_NAMES = INTO_NAMES + ["owned_into_existing", "ref_into_existing", "into_existing", "owned_try_into_existing", "ref_try_into_existing", "try_into_existing"]


def f_parent_index_no_name(it, g, pos, spell):
    """a tuple-typed parent flattened into a counterpart addressed by field names: every index entry has to name its field"""
    if it.kind != "struct" or it.shape != "named":
        return None
    zn, nm = _new_counterpart(it, g, pos, INTO_ALL_NAMES, spell)
    k = g.mark()
    form = g.pick(["single", "second_of_two", "dedicated_bar"])
    if form == "second_of_two":
        args, idx, pre = f"[map(a{k})] 0, 1", "1", "..., "
    else:
        args, idx, pre = "0", "0", ""
    f = Field(f"pp{k}", f"P{k}", [Instr("parent", "parent", container=zn, fields=args, spelling=spell)])
    _ins(it.fields, pos, f)
    return Fault("parent_index_no_name", f"{form}/{nm}", [f"Member {idx} should have an instruction that specifies corresponding field name of type {zn}, e.g. #[parent({pre}[map(field_name)] {idx}, ...)]"])


def f_rare_diagnostic(it, g, pos, spell):
    """documented diagnostics of seldom used corners (each transcribed from the message string in the source of the rule)"""
    form = g.pick(["dup_child_path", "permeate_on_struct_field", "member_repeat_unterminated", "param_twice", "two_nested_parents", "unknown_nested_instruction",
                   "repeat_unsupported_type", "repeat_unsupported_type", "dedicated_to_bare_path"])
    k = g.mark()
    if form == "dup_child_path":
        if it.kind != "struct":
            return None
        zn, nm = _new_counterpart(it, g, pos, INTO_NAMES, spell)
        _ins(it.attrs, pos, Instr("child_parents", "child_parents", container=zn, entries=[dict(path=f"p{k}", ty=f"T{k}", hint=None), dict(path=f"p{k}", ty=f"U{k}", hint=None)], spelling=spell))
        return Fault("rare", form, ["Ident here must be unique."])
    if form == "permeate_on_struct_field":
        if it.kind != "struct" or it.shape == "unit" or not it.fields:
            return None
        if any(a.kind in ("repeat", "stop_repeat", "skip_repeat") for f_ in it.fields for a in f_.attrs):
            return None
        f_ = it.fields[-1]      # nothing follows it: the only thing wrong is `permeate()` outside an enum
        f_.attrs.append(Instr("repeat", "repeat", permeate=True, cats=[], spelling="o2o"))
        return Fault("rare", form, ["Permeating repeat instruction is only applicable to enum variant fields."])
    if form == "member_repeat_unterminated":
        ms = _members(it)
        if len(ms) < 2 or any(a.kind in ("repeat", "stop_repeat", "skip_repeat") for m in ms for a in m.attrs):
            return None
        ms[0].attrs.append(Instr("repeat", "repeat", permeate=False, cats=[], spelling="o2o"))
        ms[-1].attrs.append(Instr("repeat", "repeat", permeate=False, cats=[], spelling="o2o"))
        return Fault("rare", form, ["Previous #[repeat] instruction must be terminated with #[stop_repeat]"], parse_stage=True)
    if form == "repeat_unsupported_type":
        bogus = g.pick(["children", "ghosts", "literal", "bogus"])
        if g.chance(0.5):
            ms = _members(it)
            if not ms or any(a.kind in ("repeat", "stop_repeat", "skip_repeat") for m in ms for a in m.attrs):
                return None
            _pick_member(it, pos).attrs.append(Instr("repeat", "repeat", permeate=False, cats=[g.pick(["map", "child"]), bogus], spelling="o2o"))
            return Fault("rare", form + "/member", [f"#[repeat] of instruction type '{bogus}' is not supported. Supported types are: map, child, parent, ghost, type_hint"], parse_stage=True)
        zn = _fresh(g)
        nm = g.pick(["from_owned", "owned_into", "try_from_ref"])
        _ins(it.attrs, pos, Instr(nm, "trait", ty=zn, hint=None, err="Ep" if "try" in nm else None, params=[("repeat", ["vars", bogus]), ("vars", [("v", "1")])], spelling=spell))
        return Fault("rare", form + "/trait", [f"#[repeat] of instruction type '{bogus}' is not supported. Supported types are: vars, update, quick_return, default_case"], parse_stage=True)
    if form == "dedicated_to_bare_path":
        # a `Type|` prefix has to spell the counterpart as the trait instruction does, generic arguments included
        gens = [t.f["ty"] for t in _trait_instrs(it) if "<" in t.f["ty"] and "::<" not in t.f["ty"]]
        bare = None
        for c_ in gens:
            b_ = c_.split("<")[0]
            if not any(t.f["ty"] == b_ for t in _trait_instrs(it)):
                bare = b_
                break
        if bare is None:
            return None
        if it.generics == "":
            it.generics = "<T>"
        if any(a.kind == "where_clause" and a.container() == bare for a in it.attrs):
            return None
        _ins(it.attrs, pos, Instr("where_clause", "where_clause", container=bare, preds=f"T: W{k}", spelling=spell))
        shown = bare.replace("::", " :: ").strip()   # the message shows the path as a token stream prints it
        return Fault("rare", form, [f"Type '{shown}' doesn't match any type specified in trait instructions."])
    if form == "param_twice":
        zn = _fresh(g)
        pn = g.pick(["vars", "attribute", "impl_attribute", "inner_attribute", "skip_repeat", "stop_repeat"])
        val = {"vars": [("v", "1")], "attribute": "inline", "impl_attribute": "cfg(all())", "inner_attribute": "allow(unused)", "skip_repeat": None, "stop_repeat": None}[pn]
        val2 = {"vars": [("w", "2")]}.get(pn, val)
        nm = g.pick(["from_owned", "owned_into", "try_from_ref", "ref_try_into"])
        fal = "try" in nm
        _ins(it.attrs, pos, Instr(nm, "trait", ty=zn, hint=None, err="Ep" if fal else None, params=[(pn, val), (pn, val2)], spelling=spell))
        return Fault("rare", f"{form}/{pn}", [f"Instruction parameter '{pn}' was already set."], parse_stage=True)
    if it.kind != "struct" or it.shape != "named":
        return None
    zn, nm = _new_counterpart(it, g, pos, FROM_NAMES + INTO_NAMES, spell)
    if form == "two_nested_parents":
        args, msg = f"a{k}, [parent(b{k}, c{k})] [parent(d{k}, e{k})] q{k}: Q{k}", "Cannot have more than one [parent(...)] instruction here"
    else:
        args, msg = f"a{k}, [bogus{k}(x)] b{k}", f"Instruction 'bogus{k}' is not recognized in this context"
    _ins(it.fields, pos, Field(f"pp{k}", f"P{k}", [Instr("parent", "parent", container=zn, fields=args, spelling=spell)]))
    return Fault("rare", form, [msg], parse_stage=True)


def f_repeat_conflict(it, g, pos, spell):
    nm = g.pick(["from_owned", "owned_into", "map", "try_from_ref"])
    fal = nm.startswith("try")
    sub = g.pick(["vars", "update", "return", "default", "unterminated", "follower_only"])
    a_ty, b_ty = _fresh(g), _fresh(g)
    if sub == "update" and it.kind != "struct":
        sub = "return"
    if sub == "follower_only":
        # the template repeats every parameter kind but sets only one; the follower sets another kind itself, without skip_repeat
        kinds_ = ["vars", "update", "return", "default"] if it.kind == "struct" else ["vars", "return", "default"]
        tp, fp = g.r.sample(kinds_, 2)
        par = {"vars": ("vars", [("v", "1")]), "update": ("update", "k()"), "return": ("return", "k()"), "default": ("default", "=> k()")}
        a = Instr(nm, "trait", ty=a_ty, hint=None, err="Er" if fal else None, params=[("repeat", []), par[tp]], spelling=spell)
        b = Instr(nm, "trait", ty=b_ty, hint=None, err="Er" if fal else None, params=[par[fp]], spelling=spell)
        msg = {"vars": "Vars will be overriden. Did you forget to use 'skip_repeat'?",
               "update": "Update statement will be overriden. Did you forget to use 'skip_repeat'?",
               "return": "Quick Return statement will be overriden. Did you forget to use 'skip_repeat'?",
               "default": "Default Case statement will be overriden. Did you forget to use 'skip_repeat'?"}[fp]
        i = _ins(it.attrs, pos, a)
        it.attrs.insert(g.r.randint(i + 1, len(it.attrs)), b)
        if any(x.kind == "trait" and x.name == nm and x is not a and x is not b for x in it.attrs):
            return Fault("repeat_conflict", f"follower_only/{tp}/{fp}", [re.compile(r"will be overriden\. Did you forget to use 'skip_repeat'\?$|^Previous repeat\(\) instruction must be terminated with 'stop_repeat'$")], parse_stage=True)
        return Fault("repeat_conflict", f"follower_only/{tp}/{fp}", [msg], parse_stage=True)
    par = {"vars": ("vars", [("v", "1")]), "update": ("update", "k()"), "return": ("return", "k()"), "default": ("default", "=> k()")}
    if sub == "unterminated":
        a = Instr(nm, "trait", ty=a_ty, hint=None, err="Er" if fal else None, params=[("repeat", []), ("return", "k()")], spelling=spell)
        b = Instr(nm, "trait", ty=b_ty, hint=None, err="Er" if fal else None, params=[("repeat", []), ("return", "k2()")], spelling=spell)
        msg = "Previous repeat() instruction must be terminated with 'stop_repeat'"
    else:
        a = Instr(nm, "trait", ty=a_ty, hint=None, err="Er" if fal else None, params=[("repeat", []), par[sub]], spelling=spell)
        b = Instr(nm, "trait", ty=b_ty, hint=None, err="Er" if fal else None, params=[par[sub]], spelling=spell)
        msg = {"vars": "Vars will be overriden. Did you forget to use 'skip_repeat'?",
               "update": "Update statement will be overriden. Did you forget to use 'skip_repeat'?",
               "return": "Quick Return statement will be overriden. Did you forget to use 'skip_repeat'?",
               "default": "Default Case statement will be overriden. Did you forget to use 'skip_repeat'?"}[sub]
    i = _ins(it.attrs, pos, a)
    it.attrs.insert(g.r.randint(i + 1, len(it.attrs)), b)
    # instructions of the same name that the base input already has may collide with the template first: any of the
    # documented repeat-conflict diagnostics names the problem
    if any(x.kind == "trait" and x.name == nm and x is not a and x is not b for x in it.attrs):
        return Fault("repeat_conflict", sub, [re.compile(r"will be overriden\. Did you forget to use 'skip_repeat'\?$|^Previous repeat\(\) instruction must be terminated with 'stop_repeat'$")], parse_stage=True)
    return Fault("repeat_conflict", sub, [msg], parse_stage=True)


INJECTORS = {
    "no_trait": f_no_trait,
    "dup_trait": f_dup_trait,
    "missing_err": f_missing_err,
    "superfluous_err": f_superfluous_err,
    "unknown_dedicated": f_unknown_dedicated,
    "duplicate": f_duplicate,
    "misplaced": f_misplaced,
    "ghost_no_default": f_ghost_no_default,
    "child_no_parents": f_child_no_parents,
    "shape_mismatch": f_shape_mismatch,
    "untyped_parent": f_untyped_parent,
    "parent_index_no_name": f_parent_index_no_name,
    "rare_diagnostic": f_rare_diagnostic,
    "repeat_conflict": f_repeat_conflict,
}
POSITIONS = ["first", "middle", "last"]


def expect_met(fault, msgs):
    for e in fault.expect:
        if isinstance(e, str):
            if e not in msgs:
                return False
        else:
            if not any(e.search(m) for m in msgs):
                return False
    return True


def expect_text(fault):
    return [e if isinstance(e, str) else "/" + e.pattern + "/" for e in fault.expect]
