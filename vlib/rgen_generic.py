"""Level-R generator for C11: generics, lifetimes, where-clauses (README 'Lifetimes', 'Generics', 'Where clauses'; tests 17, 18, 45)."""
from .model import Instr, Field, Item, KINDS, FALLIBLE_NAME, TRAIT_SHORT


class GCase:
    pass


def gen_case(g, cid):
    r = g.r
    gc = GCase()
    gc.cid = cid
    gc.family = r.choice(["same", "same", "same", "borrow_dto", "cp_only_lt"])
    gc.lts = r.choice([[], [], ["'a"], ["'a", "'b"]]) if gc.family == "same" else (r.choice([["'a"], ["'a", "'b"]]))
    gc.typarams = []
    ntp = r.choice([0, 1, 1, 2]) if gc.family == "same" else r.choice([0, 0, 1])
    for i in range(ntp):
        gc.typarams.append(dict(name="TU"[i], bound=r.choice(["none", "inline", "where"]), default=(i == ntp - 1 and g.chance(0.25))))
    gc.const = None
    if gc.family == "same" and g.chance(0.3):
        gc.const = dict(name="N", default=g.chance(0.4))
        if any(t["default"] for t in gc.typarams):
            gc.const["default"] = True     # parameters with a default must be trailing
    gc.where_form = r.choice(["default", "dedicated"])
    gc.feats = sorted(([f"lt{len(gc.lts)}"] if gc.lts else []) + [f"ty:{t['bound']}{'+default' if t['default'] else ''}" for t in gc.typarams] + ([f"const{'+default' if gc.const['default'] else ''}"] if gc.const else []))
    return gc


def decl_params(gc, with_defaults=True, lts=None):
    ps = list(gc.lts if lts is None else lts)
    for t in gc.typarams:
        s = t["name"]
        if t["bound"] == "inline":
            s += ": Clone + core::fmt::Debug + PartialEq"
        if t["default"] and with_defaults:
            s += " = u8"
        ps.append(s)
    if gc.const:
        s = f"const {gc.const['name']}: usize"
        if gc.const["default"] and with_defaults:
            s += " = 3"
        ps.append(s)
    return ("<" + ", ".join(ps) + ">") if ps else ""


def arg_params(gc, lts=None):
    ps = list(gc.lts if lts is None else lts) + [t["name"] for t in gc.typarams] + ([gc.const["name"]] if gc.const else [])
    return ("<" + ", ".join(ps) + ">") if ps else ""


def own_where(gc, full=False):
    ws = [f"{t['name']}: Clone + core::fmt::Debug + PartialEq" for t in gc.typarams if t["bound"] == "where" or (full and t["bound"] == "none")]
    return ", ".join(ws)


def render_module(gc, g, fallible):
    r = g.r
    err = "super::Er" if fallible else None
    fn_ = (lambda n: FALLIBLE_NAME[n]) if fallible else (lambda n: n)
    wrap = (lambda e: f"Ok::<_, super::Er>({e})") if fallible else (lambda e: e)
    L = ["use super::*;", "use o2o::traits::*;"]
    tag = f"c{gc.cid}{'f' if fallible else 'i'}"
    pre = "try_" if fallible else ""
    unb = [t for t in gc.typarams if t["bound"] == "none"]
    if gc.family == "same":
        fields = [("a", "i32")] + [(f"r{i}", f"&{lt} str") for i, lt in enumerate(gc.lts)] + [(f"t{i}", t["name"]) for i, t in enumerate(gc.typarams)] + ([("arr", f"[u8; {gc.const['name']}]")] if gc.const else [])
        w = own_where(gc)
        wtxt = f" where {w}" if w else ""
        tdecl = decl_params(gc)
        L.append(f"#[derive(Clone, Debug, PartialEq)]\npub struct Tg{tdecl}{wtxt} {{ " + " ".join(f"pub {n}: {ty}," for n, ty in fields) + " }")
        it = Item("struct", "S", shape="named", vis="pub ", generics=decl_params(gc), where=w)
        cp = "Tg" + (("::" if g.chance(0.3) else "") + arg_params(gc) if arg_params(gc) else "")
        names = []
        todo = set(KINDS)
        shorts = list(TRAIT_SHORT.items())
        r.shuffle(shorts)
        for sh, ks in shorts:
            if set(ks) <= todo and g.chance(0.6):
                names.append(sh)
                todo -= set(ks)
        names += sorted(todo)
        it.attrs = [Instr(fn_(nm), "trait", ty=cp, hint=None, err=err, params=[]) for nm in names]
        if unb:
            preds = ", ".join(f"{t['name']}: Clone + core::fmt::Debug + PartialEq" for t in unb)
            it.attrs.append(Instr("where_clause", "where_clause", container=(cp if gc.where_form == "dedicated" else None), preds=preds))
        for n, ty in fields:
            at = []
            if ty in [t["name"] for t in gc.typarams]:
                at.append(Instr("map_ref", "map", container=None, member=None, action="~.clone()", braced=False))
            it.fields.append(Field(n, ty, at))
        derive_src = it.render(derive="#[derive(Clone, Debug, PartialEq, o2o::o2o)]")
        L.append(derive_src)
        gp = decl_params(gc, with_defaults=False)
        fw = own_where(gc, full=True)
        fwt = f" where {fw}" if fw else ""
        ap = arg_params(gc)
        L.append(f"fn ref_from{gp}(t: &Tg{ap}) -> {'Result<S' + ap + ', super::Er>' if fallible else 'S' + ap}{fwt} {{ {wrap('S { ' + ' '.join(f'{n}: t.{n}.clone(),' for n, _ in fields) + ' }')} }}")
        L.append(f"fn ref_into{gp}(s: &S{ap}) -> {'Result<Tg' + ap + ', super::Er>' if fallible else 'Tg' + ap}{fwt} {{ {wrap('Tg { ' + ' '.join(f'{n}: s.{n}.clone(),' for n, _ in fields) + ' }')} }}")
        # driver: concrete instantiation, borrows from locals of an inner scope
        conc = []
        vals = {}
        D = ["pub fn run(log: &mut crate::rt::Log) {", f"    let mut r = crate::rt::Rng::new({gc.cid + 11000});", "    for d in 0..3usize {", "        let l0 = r.string(); let l1 = r.string(); let l2 = r.string(); let l3 = r.string();", "        {"]
        tyargs = [("i64", "r.i64()"), ("String", "r.string()")]
        inst = [lt for lt in gc.lts]
        cargs = ["'_" for _ in gc.lts] + [tyargs[i % 2][0] for i, _ in enumerate(gc.typarams)] + (["3"] if gc.const else [])
        targ = ("<" + ", ".join(cargs) + ">") if cargs else ""

        def ctor(name, pool):
            vs = ["a: r.i32(),"] + [f"r{i}: {pool[i]}.as_str()," for i, _ in enumerate(gc.lts)] + [f"t{i}: {tyargs[i % 2][1]}," for i, _ in enumerate(gc.typarams)] + (["arr: [r.u8(), r.u8(), r.u8()],"] if gc.const else [])
            return f"{name} {{ " + " ".join(vs) + " }"
        D.append(f"            let t: Tg{targ} = {ctor('Tg', ['l0', 'l1'])};")
        D.append(f"            let s: S{targ} = {ctor('S', ['l2', 'l3'])};")
        D.append(f"            let p: Tg{targ} = {ctor('Tg', ['l1', 'l0'])};")
        calls = [("from_owned", "S::try_from(t.clone())" if fallible else "S::from(t.clone())", "ref_from(&t)"),
                 ("from_ref", "S::try_from(&t)" if fallible else "S::from(&t)", "ref_from(&t)"),
                 ("owned_into", f"{{ let x: Result<Tg{targ}, super::Er> = s.clone().try_into(); x }}" if fallible else f"{{ let x: Tg{targ} = s.clone().into(); x }}", "ref_into(&s)"),
                 ("ref_into", f"{{ let x: Result<Tg{targ}, super::Er> = (&s).try_into(); x }}" if fallible else f"{{ let x: Tg{targ} = (&s).into(); x }}", "ref_into(&s)"),
                 ("owned_into_existing", "{ let mut o = p.clone(); let x = s.clone().try_into_existing(&mut o); x.map(|_| o) }" if fallible else "{ let mut o = p.clone(); s.clone().into_existing(&mut o); o }", "ref_into(&s)"),
                 ("ref_into_existing", "{ let mut o = p.clone(); let x = (&s).try_into_existing(&mut o); x.map(|_| o) }" if fallible else "{ let mut o = p.clone(); (&s).into_existing(&mut o); o }", "ref_into(&s)")]
        for k, call, want in calls:
            D.append(f'            log.ev("{tag}", "{pre}{k}", d, "", &format!("{{:?}}", {call}), &format!("{{:?}}", {want}));')
        D += ["        }", "    }", "}"]
        return "\n".join(L + D) + "\n", derive_src
    # ---- lifetime-only families ---------------------------------------------------------------------------------
    tp = decl_params(gc, lts=[])         # type params only
    ta = arg_params(gc, lts=[])
    w = own_where(gc)
    wtxt = f" where {w}" if w else ""
    extra_f = [(f"t{i}", t["name"]) for i, t in enumerate(gc.typarams)]
    wc = []
    if unb:
        wc = [Instr("where_clause", "where_clause", container=None, preds=", ".join(f"{t['name']}: Clone + core::fmt::Debug + PartialEq" for t in unb))]
    lts = gc.lts
    if gc.family == "borrow_dto":
        # README 'Lifetimes' first example: the deriving dto borrows from the counterpart
        L.append(f"#[derive(Clone, Debug, PartialEq)]\npub struct Ent{tp}{wtxt} {{ " + " ".join(f"pub s{i}: String," for i, _ in enumerate(lts)) + " ".join(f" pub {n}: {ty}," for n, ty in extra_f) + " }")
        it = Item("struct", "S", shape="named", vis="pub ", generics=decl_params(gc), where=w)
        it.attrs = [Instr(fn_("from_ref"), "trait", ty="Ent" + ta, hint=None, err=err, params=[])] + wc
        for i, lt in enumerate(lts):
            it.fields.append(Field(f"s{i}", f"&{lt} str", [Instr("from", "map", container=None, member=None, action="~.as_str()", braced=False)]))
        for n, ty in extra_f:
            it.fields.append(Field(n, ty, [Instr("from", "map", container=None, member=None, action="~.clone()", braced=False)]))
        derive_src = it.render(derive="#[derive(Clone, Debug, PartialEq, o2o::o2o)]")
        L.append(derive_src)
        conc = ("<" + ", ".join(["i64", "String"][:len(gc.typarams)]) + ">") if gc.typarams else ""
        vals = " ".join(f"s{i}: r.string()," for i, _ in enumerate(lts)) + " ".join(f" t{i}: {['r.i64()', 'r.string()'][i % 2]}," for i, _ in enumerate(gc.typarams))
        D = ["pub fn run(log: &mut crate::rt::Log) {", f"    let mut r = crate::rt::Rng::new({gc.cid + 12000});", "    for d in 0..3usize {", "        {",
             f"            let e: Ent{conc} = Ent {{ {vals} }};",
             "            let s = " + ("S::try_from(&e)" if fallible else "S::from(&e)") + ";",
             "            let want = (" + " ".join(f"e.s{i}.as_str()," for i, _ in enumerate(lts)) + " ".join(f" e.t{i}.clone()," for i, _ in enumerate(gc.typarams)) + ");",
             ("            let got = s.map(|s| (" if fallible else "            let got = (") + " ".join(f"s.s{i}," for i, _ in enumerate(lts)) + " ".join(f" s.t{i}.clone()," for i, _ in enumerate(gc.typarams)) + ("));" if fallible else ");"),
             f'            log.ev("{tag}", "{pre}from_ref", d, "", &format!("{{:?}}", got), &format!("{{:?}}", {"Ok::<_, super::Er>(want)" if fallible else "want"}));',
             "        }", "    }", "}"]
        return "\n".join(L + D) + "\n", derive_src
    # cp_only_lt: README 'Lifetimes' mirror scenario: lifetimes appear only in the counterpart's path
    dto_decl = "<" + ", ".join(lts + [t["name"] for t in gc.typarams]) + ">"
    L.append(f"#[derive(Clone, Debug, PartialEq)]\npub struct Dto{dto_decl} {{ " + " ".join(f"pub s{i}: &{lt} str," for i, lt in enumerate(lts)) + " ".join(f" pub {n}: {ty}," for n, ty in extra_f) + " }")
    it = Item("struct", "S", shape="named", vis="pub ", generics=tp, where=w)
    it.attrs = [Instr(fn_("ref_into"), "trait", ty="Dto" + dto_decl, hint=None, err=err, params=[])] + wc
    for i, lt in enumerate(lts):
        it.fields.append(Field(f"s{i}", "String", [Instr("into", "map", container=None, member=None, action="~.as_str()", braced=False)]))
    for n, ty in extra_f:
        it.fields.append(Field(n, ty, [Instr("into", "map", container=None, member=None, action="~.clone()", braced=False)]))
    derive_src = it.render(derive="#[derive(Clone, Debug, PartialEq, o2o::o2o)]")
    L.append(derive_src)
    conc = ("<" + ", ".join(["i64", "String"][:len(gc.typarams)]) + ">") if gc.typarams else ""
    dconc = "<" + ", ".join(["'_"] * len(lts) + ["i64", "String"][:len(gc.typarams)]) + ">"
    vals = " ".join(f"s{i}: r.string()," for i, _ in enumerate(lts)) + " ".join(f" t{i}: {['r.i64()', 'r.string()'][i % 2]}," for i, _ in enumerate(gc.typarams))
    D = ["pub fn run(log: &mut crate::rt::Log) {", f"    let mut r = crate::rt::Rng::new({gc.cid + 13000});", "    for d in 0..3usize {", "        {",
         f"            let s: S{conc} = S {{ {vals} }};",
         f"            let got: {'Result<Dto' + dconc + ', super::Er>' if fallible else 'Dto' + dconc} = " + ("(&s).try_into()" if fallible else "(&s).into()") + ";",
         "            let want = Dto { " + " ".join(f"s{i}: s.s{i}.as_str()," for i, _ in enumerate(lts)) + " ".join(f" t{i}: s.t{i}.clone()," for i, _ in enumerate(gc.typarams)) + " };",
         f'            log.ev("{tag}", "{pre}ref_into", d, "", &format!("{{:?}}", got), &format!("{{:?}}", {"Ok::<_, super::Er>(want)" if fallible else "want"}));',
         "        }", "    }", "}"]
    return "\n".join(L + D) + "\n", derive_src


def render_case(gc, g):
    from .rgen import PRELUDE
    ci, di = render_module(gc, g, False)
    cf, df = render_module(gc, g, True)
    code = PRELUDE + "pub mod inf {\n" + ci + "}\npub mod fal {\n" + cf + "}\npub fn run(log: &mut crate::rt::Log) { inf::run(log); fal::run(log); }\n"
    return code, di, df
