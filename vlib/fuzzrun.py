"""Coverage-guided campaign for C16 (thorough tier): cargo-fuzz / libFuzzer target harness/fuzzproj/fuzz/fuzz_targets/derive.rs.
The target catches unwinds itself and appends (message, location, input) lines to a log, so a known panic does not
stop the exploration; this module turns the log into observations for the same monitor."""
import os
import shutil
import subprocess
from . import common


def campaign(ck, seconds=None):
    seconds = seconds or int(os.environ.get("VERIF_FUZZ_SECONDS", "300"))
    proj = common.harness_dir("fuzzproj")
    tgt = os.path.join(common.WORK, "tgt-fuzz")
    lock = os.path.join(proj, "fuzz/Cargo.lock")
    if not os.path.exists(lock):
        shutil.copy(os.path.join(common.REPO, "Cargo.lock"), lock)
    hfile = os.path.join(tgt, ".repo_hash")
    cur = common.repo_hash()
    if os.path.exists(hfile) and open(hfile).read().strip() != cur:
        shutil.rmtree(tgt, ignore_errors=True)
    env = dict(os.environ, CARGO_NET_OFFLINE="true")
    try:
        b = subprocess.run(["cargo", "+nightly", "fuzz", "build", "--fuzz-dir", "fuzz", "--target-dir", tgt], cwd=proj, env=env, stdout=subprocess.PIPE, stderr=subprocess.STDOUT, timeout=1800)
    except subprocess.TimeoutExpired:
        ck.note_inconclusive("fuzz target build timed out")
        return
    if b.returncode != 0:
        ck.note_inconclusive("fuzz target failed to build: " + b.stdout.decode("utf-8", "replace")[-400:])
        return
    os.makedirs(tgt, exist_ok=True)
    with open(hfile, "w") as fh:
        fh.write(cur)
    corpus = os.path.join(common.WORK, f"fuzz-corpus-{ck.seed}")
    shutil.rmtree(corpus, ignore_errors=True)
    os.makedirs(corpus)
    log = os.path.join(common.WORK, f"fuzz-{ck.seed}.log")
    import glob
    for old_log in glob.glob(log + ".*"):
        os.unlink(old_log)
    env["O2O_FUZZ_LOG"] = log
    try:
        p = subprocess.run(["cargo", "+nightly", "fuzz", "run", "--fuzz-dir", "fuzz", "--target-dir", tgt, "derive", corpus, "--",
                            f"-max_total_time={seconds}", "-timeout=10", "-len_control=0", "-max_len=256", f"-fork={common.NCPU}", f"-seed={ck.seed}"],
                           cwd=proj, env=env, stdout=subprocess.PIPE, stderr=subprocess.STDOUT, timeout=seconds + 900)
    except subprocess.TimeoutExpired:
        ck.note_inconclusive("fuzz campaign exceeded its watchdog")
        return
    tail = p.stdout.decode("utf-8", "replace")
    execs = 0
    import re
    for m in re.finditer(r"#(\d+):? ", tail):
        execs = max(execs, int(m.group(1)))
    crashes = [f for f in os.listdir(os.path.join(proj, "fuzz/artifacts/derive")) if f.startswith(("crash-", "timeout-", "oom-"))] if os.path.isdir(os.path.join(proj, "fuzz/artifacts/derive")) else []
    for c in crashes:
        ck.violation("fuzz|process_crash_or_timeout", dict(artifact=c, note="libFuzzer reported a crash / timeout / oom outside catch_unwind"))
    n = 0
    sigs = {}
    malformed = 0
    for lf in glob.glob(log + ".*"):
        for line in open(lf, errors="replace"):
            parts = line.rstrip("\n").split("\t")
            if len(parts) < 3 or not re.match(r".+:\d+$", parts[1]):
                malformed += 1
                continue
            n += 1
            o = {"msg": parts[0], "loc": parts[1], "func": ""}
            sig = common.panic_sig(o)
            sigs[sig] = sigs.get(sig, 0) + 1
            ck.violation(sig, dict(input=parts[2], workload="libfuzzer", panic=o))
    ck.count(max(execs, n))
    for s in sigs:
        ck.cell(["fuzz", s])
    for lf in glob.glob(log + ".*"):
        os.unlink(lf)
    ck.extra["fuzz_campaign"] = {"malformed_log_lines": malformed, "seconds": seconds, "forks": common.NCPU, "executions_reported": execs, "caught_unwinds": n, "distinct_signatures": sigs, "corpus_files": len(os.listdir(corpus))}
    shutil.rmtree(corpus, ignore_errors=True)
    shutil.rmtree(os.path.join(proj, "fuzz/artifacts"), ignore_errors=True)
