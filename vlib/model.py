"""Structured model of a `#[derive(o2o)]` input and its rendering to source text.

The model is *semantic* enough for the metamorphic transformations the checks need (re-spelling,
shortcut expansion, repeat unrolling, projection to one counterpart, fault injection) and is rendered
to text only at the end.
"""
import copy

TRAIT_BASIC = ["owned_into", "ref_into", "from_owned", "from_ref", "owned_into_existing", "ref_into_existing"]
TRAIT_SHORT = {  # README lines 232-241 (transcribed, not read from attr.rs)
    "map": ["from_owned", "from_ref", "owned_into", "ref_into"],
    "from": ["from_owned", "from_ref"],
    "into": ["owned_into", "ref_into"],
    "map_owned": ["from_owned", "owned_into"],
    "map_ref": ["from_ref", "ref_into"],
    "into_existing": ["owned_into_existing", "ref_into_existing"],
}
FALLIBLE_NAME = {  # infallible basic name -> fallible name (README 190-230 + try_ shortcuts)
    "owned_into": "owned_try_into", "ref_into": "ref_try_into", "from_owned": "try_from_owned", "from_ref": "try_from_ref",
    "owned_into_existing": "owned_try_into_existing", "ref_into_existing": "ref_try_into_existing",
    "map": "try_map", "from": "try_from", "into": "try_into", "map_owned": "try_map_owned", "map_ref": "try_map_ref",
    "into_existing": "try_into_existing",
}
INFALLIBLE_NAME = {v: k for k, v in FALLIBLE_NAME.items()}
ALL_TRAIT_NAMES = list(FALLIBLE_NAME.keys()) + list(FALLIBLE_NAME.values())
KINDS = ["from_owned", "from_ref", "owned_into", "ref_into", "owned_into_existing", "ref_into_existing"]


def is_fallible_name(n):
    return n in INFALLIBLE_NAME


def base_name(n):
    return INFALLIBLE_NAME.get(n, n)


def kinds_of(name):
    """The basic kinds an (infallible or fallible) trait/member instruction name stands for."""
    b = base_name(name)
    if b in TRAIT_SHORT:
        return list(TRAIT_SHORT[b])
    return [b]


def name_for(kind, fallible):
    return FALLIBLE_NAME[kind] if fallible else kind


class Instr:
    """One o2o instruction. `kind` selects the argument grammar:
      trait        : ty, hint(None|'{}'|'()'|'Unit'), err, params=[(pname, value)]
      map          : container, member, action, braced
      ghost        : container, action, braced
      ghosts       : container, entries=[dict(path, ident, destr, action)]
      child        : container, path
      child_parents: container, entries=[dict(path, ty, hint)]
      parent       : container, fields (raw text or None)
      where_clause : container, preds
      literal/pattern : container, tokens
      type_hint    : container, hint
      as_type      : container, member, ty
      repeat       : permeate(bool), cats=[..]   | skip_repeat | stop_repeat | allow_unknown
      raw          : args (raw text or None)
    spelling: 'bare' | 'o2o' ; group: int tag -> adjacent instrs with equal tag share one #[o2o(..)] list
    """

    def __init__(self, name, kind, **kw):
        self.name = name
        self.kind = kind
        self.spelling = kw.pop("spelling", "bare")
        self.group = kw.pop("group", None)
        self.f = kw

    def copy(self):
        return copy.deepcopy(self)

    def container(self):
        return self.f.get("container")

    def args(self):
        k, f = self.kind, self.f
        c = f.get("container")
        pre = f"{c}| " if c else ""
        if k == "trait":
            s = f["ty"]
            if f.get("hint"):
                s += f" as {f['hint']}"
            if f.get("err"):
                s += f", {f['err']}"
            ps = f.get("params") or []
            if ps:
                s += "| " + ", ".join(render_param(p) for p in ps)
            return s
        if k == "map":
            parts = []
            if f.get("member") is not None:
                parts.append(str(f["member"]))
            if f.get("action") is not None:
                parts.append("{" + f["action"] + "}" if f.get("braced") else f["action"])
            if not parts and not c:
                return None if not f.get("parens") else ""
            return pre + ", ".join(parts)
        if k == "ghost":
            if f.get("action") is None:
                if not c:
                    return None if not f.get("parens") else ""
                return f"{c}| " if f.get("bar") else f"{c}"
            a = "{" + f["action"] + "}" if f.get("braced", True) else f["action"]
            return pre + a
        if k == "ghosts":
            es = []
            for e in f["entries"]:
                p = (e["path"] + "@") if e.get("path") else ""
                if e.get("destr") is not None:
                    es.append(f"{p}{e['destr']}: {{{e['action']}}}")
                else:
                    es.append(f"{p}{e['ident']}: {{{e['action']}}}")
            if not es and not c:
                return None
            return pre + ", ".join(es)
        if k == "child":
            return pre + f["path"]
        if k == "child_parents":
            return pre + ", ".join(f"{e['path']}: {e['ty']}" + (f" as {e['hint']}" if e.get("hint") else "") for e in f["entries"])
        if k == "parent":
            if f.get("fields") is None:
                if not c:
                    return None
                return f"{c}| " if f.get("bar", True) else f"{c}"
            return pre + f["fields"]
        if k == "where_clause":
            return pre + f["preds"]
        if k in ("literal", "pattern"):
            return pre + f["tokens"]
        if k == "type_hint":
            return pre + f"as {f['hint']}"
        if k == "as_type":
            m = f"{f['member']}, " if f.get("member") is not None else ""
            return pre + m + f["ty"]
        if k == "repeat":
            parts = []
            if f.get("permeate"):
                parts.append("permeate()")
            parts += list(f.get("cats") or [])
            if not parts and not f.get("parens", True):
                return None
            return ", ".join(parts)
        if k in ("skip_repeat", "stop_repeat", "allow_unknown"):
            return None
        if k == "raw":
            return f.get("args")
        raise ValueError(k)

    def text(self):
        a = self.args()
        return self.name if a is None else f"{self.name}({a})"

    def __repr__(self):
        return f"<{self.text()}>"


def render_param(p):
    n, v = p
    if n == "vars":
        return "vars(" + ", ".join(f"{a}: {{{e}}}" for a, e in v) + ")"
    if n == "update":
        return ".." + v
    if n == "return":
        return "return " + v
    if n == "default":
        return "_ " + v
    if n in ("attribute", "impl_attribute", "inner_attribute"):
        return f"{n}({v})"
    if n == "repeat":
        return "repeat(" + ", ".join(v) + ")"
    if n in ("skip_repeat", "stop_repeat"):
        return n
    raise ValueError(n)


NO_BARE = {"as_type", "repeat", "skip_repeat", "stop_repeat", "allow_unknown", "ghost_owned", "ghost_ref", "ghosts_owned", "ghosts_ref"}  # only via #[o2o(..)] (o2o-macros attributes list)


def render_attrs(instrs, indent=""):
    """Render a list of Instr honouring spelling/group."""
    out = []
    i = 0
    n = len(instrs)
    while i < n:
        ins = instrs[i]
        if ins.kind == "foreign":
            out.append(f"{indent}#[{ins.f['text']}]")
            i += 1
            continue
        sp = ins.spelling
        if ins.name in NO_BARE and sp == "bare":
            sp = "o2o"
        if sp == "bare":
            out.append(f"{indent}#[{ins.text()}]")
            i += 1
            continue
        # o2o spelling; gather group
        j = i + 1
        if ins.group is not None:
            while j < n and instrs[j].kind != "foreign" and instrs[j].group == ins.group and (instrs[j].spelling == "o2o" or instrs[j].name in NO_BARE):
                j += 1
        trail = "," if (ins.f.get("_trailing_comma") and j - i > 0) else ""
        out.append(f"{indent}#[o2o(" + ", ".join(x.text() for x in instrs[i:j]) + trail + ")]")
        i = j
    return out


class Field:
    def __init__(self, name, ty, attrs=None):
        self.name = name  # None for tuple fields
        self.ty = ty
        self.attrs = attrs or []


class Variant:
    def __init__(self, name, shape="unit", fields=None, attrs=None):
        self.name = name
        self.shape = shape  # unit | tuple | named
        self.fields = fields or []
        self.attrs = attrs or []


class Item:
    def __init__(self, kind, name, shape="named", generics="", where="", attrs=None, fields=None, variants=None, vis="", derives=None):
        self.kind = kind  # struct | enum | union
        self.name = name
        self.shape = shape  # named | tuple | unit (structs)
        self.generics = generics
        self.where = where
        self.attrs = attrs or []
        self.fields = fields or []
        self.variants = variants or []
        self.vis = vis
        self.meta = {}

    def copy(self):
        return copy.deepcopy(self)

    def all_attr_lists(self):
        """Yield (level, owner, list) for every attribute list of the item."""
        yield ("type", self, self.attrs)
        for f in self.fields:
            yield ("field", f, f.attrs)
        for v in self.variants:
            yield ("variant", v, v.attrs)
            for f in v.fields:
                yield ("vfield", f, f.attrs)

    def render(self, derive=None):
        """derive: None -> bare item as fed to the X driver; else a derive attribute line is added."""
        L = []
        if derive:
            L.append(derive)
        L += render_attrs(self.attrs)

        def fields_block(fields, shape, ind):
            if shape == "unit":
                return ""
            parts = []
            for f in fields:
                a = " ".join(render_attrs(f.attrs))
                a = (a + " ") if a else ""
                if shape == "named":
                    parts.append(f"{ind}{a}{self.vis if ind == '    ' and self.kind != 'enum' else ''}{f.name}: {f.ty},")
                else:
                    parts.append(f"{ind}{a}{self.vis if ind == '    ' and self.kind != 'enum' else ''}{f.ty},")
            if shape == "named":
                return " {\n" + "\n".join(parts) + "\n" + ind[:-4] + "}"
            return "(\n" + "\n".join(parts) + "\n" + ind[:-4] + ")"

        w = f" where {self.where}" if self.where else ""
        if self.kind in ("struct", "union"):
            kw = self.kind
            if self.shape == "unit":
                L.append(f"{self.vis}{kw} {self.name}{self.generics}{w};")
            elif self.shape == "named":
                L.append(f"{self.vis}{kw} {self.name}{self.generics}{w}{fields_block(self.fields, 'named', '    ')}")
            else:
                L.append(f"{self.vis}{kw} {self.name}{self.generics}{fields_block(self.fields, 'tuple', '    ')}{w};")
        else:
            vs = []
            for v in self.variants:
                a = "".join(x + " " for x in render_attrs(v.attrs))
                vs.append(f"    {a}{v.name}{fields_block(v.fields, v.shape, '        ')},")
            L.append(f"{self.vis}enum {self.name}{self.generics}{w} {{\n" + "\n".join(vs) + "\n}")
        return "\n".join(L)
