"""Level-R generator for C03: flattened child / parent mappings (README 'Flatened children', tests 9-11, 14-16, 19, 46, 47).

 child family : S is flat, T is a tree of named structs; S fields carry #[child(path)], the type carries #[child_parents(..)]
 parent family: S holds a nested value flattened into a flat T through #[parent(f, [parent(..)] g: G, [map(x)] h)]
 bare  family : S { #[parent] inner: Inner } where Inner derives its own From<&T> / IntoExisting<T> (probes inside)
"""
from .model import Instr, Field, Item, KINDS, FALLIBLE_NAME, TRAIT_SHORT
from .rgen import NUM, rng_call, const_of, rnd_expr, PRELUDE

LEAVES = ["i8", "i16", "i32", "i64", "u8", "u16", "u32", "bool", "char"]


class Node:
    def __init__(self, ty):
        self.ty = ty
        self.leaves = []     # [dict(name, ty, s=SLeaf|None, ghost_k=None)]
        self.children = []   # [(field_name, Node)]
        self.tuple = False   # leaf-only node declared as a tuple struct (leaves are addressed by index)


def gen_tree(g, depth, maxdepth, root=False):
    r = g.r
    n = Node("T" if root else f"N{g.mark()}")
    for _ in range(r.randint(0 if not root else 1, 3)):
        n.leaves.append(dict(name=f"v{g.mark()}", ty=r.choice(LEAVES), ghost_k=None))
    if depth < maxdepth:
        for _ in range(r.randint(1 if root else 0, 3 if depth < 2 else 2)):
            pool = [x for x in ["a", "ab", "abc", "b", "ba", "c", "x", "a1", "a12", "a\u00e9", "a\u00f1b", "ab\u00e9"] if x not in [c[0] for c in n.children]]
            n.children.append((r.choice(pool) if g.chance(0.6) else r.choice(["a", "b", "c"]) + str(g.mark()), gen_tree(g, depth + 1, maxdepth)))
    if not n.leaves and not n.children:
        n.leaves.append(dict(name=f"v{g.mark()}", ty=r.choice(LEAVES), ghost_k=None))
    return n


def walk(node, path=()):
    yield path, node
    for fname, ch in node.children:
        yield from walk(ch, path + (str(fname),))


def type_defs(node, derive="#[derive(Clone, Debug, PartialEq, Default)]"):
    out = []
    for path, n in walk(node):
        if n.tuple:
            out.append(f"{derive}\npub struct {n.ty}(" + ", ".join([f"pub {l['ty']}" for l in n.leaves] + [f"pub {ch.ty}" for _, ch in n.children]) + ");")
            continue
        fs = [f"pub {l['name']}: {l['ty']}," for l in n.leaves] + [f"pub {fn}: {ch.ty}," for fn, ch in n.children]
        out.append(f"{derive}\npub struct {n.ty} {{ " + " ".join(fs) + " }")
    return "\n".join(out)


def tree_value(node, leaf_expr):
    """Rust expression constructing the tree; leaf_expr(path, leaf) -> expr"""
    def rec(n, path):
        if n.tuple:
            return f"{n.ty}(" + ", ".join([leaf_expr(path, l) for l in n.leaves] + [rec(ch, path + (str(fn),)) for fn, ch in n.children]) + ")"
        fs = [f"{l['name']}: {leaf_expr(path, l)}," for l in n.leaves] + [f"{fn}: {rec(ch, path + (fn,))}," for fn, ch in n.children]
        return f"{n.ty} {{ " + " ".join(fs) + " }"
    return rec(node, ())


class FlatCase:
    pass


def perm_class_order(g, fields, cls):
    """order S fields: tree | grouped (contiguous groups, reordered) | interleaved (same-path fields separated, subtrees contiguous at first sight)
    | separated (sibling sub-groups of one parent separated by an unrelated subtree)"""
    r = g.r
    if cls == "tree":
        return list(fields)
    groups = {}
    for f in fields:
        groups.setdefault(f["path"], []).append(f)
    keys = list(groups)
    if cls == "grouped":
        # keep every subtree contiguous: sort paths by a random order of their top-level component, then by a random order within
        tops = sorted({k[:1] for k in keys}, key=lambda _: r.random())
        order = []
        for t in tops:
            sub = [k for k in keys if k[:1] == t]
            sub.sort(key=lambda k: (len(k), r.random()))
            r.shuffle(sub) if g.chance(0.5) else None
            # a parent path has to be first seen before nothing in particular; any order keeps the subtree contiguous
            for k in sub:
                fs = groups[k][:]
                r.shuffle(fs)
                order += fs
        return order
    if cls == "interleaved":
        # first appearances keep subtrees contiguous, later members of a group are scattered anywhere after it
        tops = sorted({k[:1] for k in keys}, key=lambda _: r.random())
        first, rest = [], []
        for t in tops:
            sub = [k for k in keys if k[:1] == t]
            r.shuffle(sub)
            for k in sub:
                fs = groups[k][:]
                r.shuffle(fs)
                first.append(fs[0])
                rest += fs[1:]
        r.shuffle(rest)
        return first + rest
    # separated: two sibling sub-groups under one parent with a different top-level subtree in between
    order = perm_class_order(g, fields, "grouped")
    by_top = {}
    for f in order:
        by_top.setdefault(f["path"][:1], []).append(f)
    cands = [t for t, fs in by_top.items() if len({f["path"] for f in fs}) >= 2 and t != ()]
    others = [t for t in by_top if t not in cands[:1]]
    if not cands or not others:
        return None
    t = cands[0]
    paths = []
    for f in by_top[t]:
        if f["path"] not in paths:
            paths.append(f["path"])
    a = [f for f in by_top[t] if f["path"] == paths[0]]
    b = [f for f in by_top[t] if f["path"] != paths[0]]
    mid = by_top[others[0]]
    restf = [f for tt in others[1:] for f in by_top[tt]]
    return a + mid + b + restf


def gen_child_case(g, cid, opts=None):
    r = g.r
    fc = FlatCase()
    fc.cid, fc.family = cid, "child"
    fc.root = gen_tree(g, 0, r.choice([1, 1, 2, 2, 3, 4, 5]), root=True)
    fields = []
    taken = set()
    # From-only sub-family: some leaf-only nested structs are tuple structs, their members addressed by index (`#[child(a.b)] #[from(1, expr)]`)
    fc.from_only = (opts or {}).get("from_only", g.chance(0.2))
    fc.exprs = fc.from_only or g.chance(0.3)
    fc.tuple_into = (not fc.from_only) and (opts or {}).get("tuple_into", g.chance(0.3))
    if fc.from_only or fc.tuple_into:
        for path, n in walk(fc.root):
            if path and not n.children and n.leaves and g.chance(0.7):
                n.tuple = True
                for i, l in enumerate(n.leaves):
                    l["name"] = i
                if fc.tuple_into and len(n.leaves) >= 2 and g.chance(0.5):
                    # a trailing member only the struct-level ghosts provide (`path@index: {..}`); positional filling puts ghosts last
                    n.leaves[-1]["ghost_k"] = g.mark()
    for path, n in walk(fc.root):
        for l in n.leaves:
            roll = r.random()
            if l["ghost_k"] is not None:
                continue
            if roll < 0.15 and (path or len(n.leaves) > 1) and not n.tuple:
                l["ghost_k"] = g.mark()     # counterpart-only leaf provided by struct-level #[ghosts(path@name: {..})]
                continue
            same = l["name"] not in taken and g.chance(0.4) and not n.tuple
            sname = l["name"] if same else f"l{g.mark()}"
            taken.add(sname)
            f = dict(sname=sname, ty=l["ty"], path=path, leaf=l, rename=(sname != l["name"]), k_from=None, k_into=None)
            if fc.exprs and g.chance(0.5):
                f["k_from"], f["k_into"] = g.mark(), g.mark()
            fields.append(f)
    if not fields:
        return gen_child_case(g, cid, opts)
    # S-only ghost field
    fc.s_ghost = None
    if g.chance(0.2):
        fc.s_ghost = dict(sname=f"sg{g.mark()}", ty=r.choice(LEAVES), k=g.mark())
    cls = (opts or {}).get("perm") or r.choice(["tree", "grouped", "grouped", "interleaved", "interleaved", "separated"])
    order = perm_class_order(g, fields, cls)
    if order is None:
        cls = "interleaved"
        order = perm_class_order(g, fields, cls)
    fc.perm = cls
    # a top-level member may be *named* like a nested struct's path (its own counterpart field has another name): it still is a top-level member
    fc.collide = None
    tops = [f for f in order if f["path"] == () and f["k_from"] is None]
    kids = [fn for fn, _ in fc.root.children if not str(fn).isdigit()]
    if tops and kids and g.chance(0.15) and not fc.from_only:
        f = r.choice(tops)
        fn = r.choice(kids)
        if any(x["path"][:1] == (fn,) for x in order) and not any(x["sname"] == fn for x in order):
            f["sname"], f["rename"] = fn, True
            order.remove(f)
            last = max(i for i, x in enumerate(order) if x["path"][:1] == (fn,))
            order.insert(last + 1, f)
            fc.collide = fn
    if fc.tuple_into:
        # a tuple-form nested struct is filled positionally: its members keep ascending index order among themselves
        tpaths = {p for p, n in walk(fc.root) if n.tuple}
        for tp in tpaths:
            slots = [i for i, f in enumerate(order) if f["path"] == tp]
            for i, f in zip(slots, sorted((order[i] for i in slots), key=lambda f: f["leaf"]["name"])):
                order[i] = f
    fc.fields = order
    fc.depth = max(len(p) for p, _ in walk(fc.root))
    fc.branching = max([len(n.children) for _, n in walk(fc.root)] + [0])
    return fc


def render_child_module(fc, g, fallible, draws):
    r = g.r
    it = Item("struct", "S", shape="named", vis="pub ")
    names = []
    kinds = ["from_owned", "from_ref"] if fc.from_only else KINDS
    todo = set(kinds)
    shorts = list(TRAIT_SHORT.items())
    r.shuffle(shorts)
    for sh, ks in shorts:
        if set(ks) <= todo and g.chance(0.6):
            names.append(sh)
            todo -= set(ks)
    names += sorted(todo)
    r.shuffle(names)
    for nm in names:
        it.attrs.append(Instr(FALLIBLE_NAME[nm] if fallible else nm, "trait", ty="T", hint=None, err="super::Er" if fallible else None, params=[]))
    cps = [dict(path=".".join(p), ty=n.ty, hint=("()" if (n.tuple and fc.tuple_into) else None)) for p, n in walk(fc.root) if p]
    r.shuffle(cps)
    if cps:
        it.attrs.append(Instr("child_parents", "child_parents", container=None, entries=cps))
    gh = [dict(path=".".join(p) if p else None, ident=l["name"], action=const_of(l["ty"], l["ghost_k"])) for p, n in walk(fc.root) for l in n.leaves if l["ghost_k"] is not None]
    r.shuffle(gh)
    if gh:
        it.attrs.append(Instr("ghosts", "ghosts", container=None, entries=gh))
    r.shuffle(it.attrs)
    sfields = list(fc.fields)
    for f in sfields:
        at = []
        if f["path"]:
            at.append(Instr("child", "child", container=None, path=".".join(f["path"])))
        member = f["leaf"]["name"] if f["rename"] else None
        if f["k_from"] is not None:
            # the same instruction names in both twins (C07 compares them)
            at.append(Instr("from", "map", container=None, member=member, action=rnd_expr(f["ty"], f["k_from"], "~"), braced=bool(f["k_from"] % 2)))
            if not fc.from_only:
                at.append(Instr("into", "map", container=None, member=member, action=rnd_expr(f["ty"], f["k_into"], "~"), braced=bool(f["k_into"] % 2)))
        elif f["rename"]:
            at.append(Instr("map", "map", container=None, member=member, action=None))
        r.shuffle(at)
        it.fields.append(Field(f["sname"], f["ty"], at))
    if fc.s_ghost:
        it.fields.insert(fc.cid % (len(it.fields) + 1), Field(fc.s_ghost["sname"], fc.s_ghost["ty"], [Instr("ghost", "ghost", container=None, action=const_of(fc.s_ghost["ty"], fc.s_ghost["k"]), braced=True)]))
    derive_src = it.render(derive="#[derive(Clone, Debug, PartialEq, o2o::o2o)]")
    L = ["use super::*;", "use o2o::traits::*;", type_defs(fc.root), derive_src, ""]
    by_leaf = {id(f["leaf"]): f for f in fc.fields}
    wrap = (lambda e: f"Ok::<_, super::Er>({e})") if fallible else (lambda e: e)
    # references
    svals = []
    for fld in it.fields:
        f = next((x for x in fc.fields if x["sname"] == fld.name), None)
        if f is None:
            svals.append(f"{fld.name}: {const_of(fc.s_ghost['ty'], fc.s_ghost['k'])},")
        else:
            x = f"t.{'.'.join(f['path'] + (str(f['leaf']['name']),))}"
            svals.append(f"{fld.name}: {x if f['k_from'] is None else rnd_expr(f['ty'], f['k_from'], x)},")
    L.append(f"fn ref_from(t: &T) -> {'Result<S, super::Er>' if fallible else 'S'} {{ {wrap('S { ' + ' '.join(svals) + ' }')} }}")

    def into_leaf(path, l):
        if l["ghost_k"] is not None:
            return const_of(l["ty"], l["ghost_k"])
        f = by_leaf[id(l)]
        return f"s.{f['sname']}" if f["k_into"] is None else rnd_expr(f["ty"], f["k_into"], f"s.{f['sname']}")
    L.append(f"fn ref_into(s: &S, pre: &T) -> {'Result<T, super::Er>' if fallible else 'T'} {{ {wrap(tree_value(fc.root, into_leaf))} }}")
    tag = f"c{fc.cid}{'f' if fallible else 'i'}"
    D = ["pub fn run(log: &mut crate::rt::Log) {", f"    let mut r = crate::rt::Rng::new({fc.cid + 7000});", f"    for d in 0..{draws}usize {{"]
    D.append("        let t: T = " + tree_value(fc.root, lambda p, l: rng_call(l["ty"])) + ";")
    D.append("        let pre: T = " + tree_value(fc.root, lambda p, l: rng_call(l["ty"])) + ";")
    D.append("        let s: S = S { " + " ".join(f"{fld.name}: {rng_call(fld.ty)}," for fld in it.fields) + " };")
    D += conv_driver(tag, fallible, "ref_from(&t)", "ref_into(&s, &pre)", "ref_into(&s, &pre)", kinds)
    D += ["    }", "}"]
    return "\n".join(L + D) + "\n", derive_src


def conv_driver(tag, fallible, want_from, want_into, want_existing, kinds=KINDS, by_kind=None):
    pre = "try_" if fallible else ""
    D = []
    calls = {
        "from_owned": ("S::try_from(t.clone())" if fallible else "S::from(t.clone())", want_from, "t"),
        "from_ref": ("S::try_from(&t)" if fallible else "S::from(&t)", want_from, "t"),
        "owned_into": ("{ let x: Result<T, super::Er> = s.clone().try_into(); x }" if fallible else "{ let x: T = s.clone().into(); x }", want_into, "s"),
        "ref_into": ("{ let x: Result<T, super::Er> = (&s).try_into(); x }" if fallible else "{ let x: T = (&s).into(); x }", want_into, "s"),
        "owned_into_existing": ("{ let mut o = pre.clone(); let x = s.clone().try_into_existing(&mut o); x.map(|_| o) }" if fallible else "{ let mut o = pre.clone(); s.clone().into_existing(&mut o); o }", want_existing, "s"),
        "ref_into_existing": ("{ let mut o = pre.clone(); let x = (&s).try_into_existing(&mut o); x.map(|_| o) }" if fallible else "{ let mut o = pre.clone(); (&s).into_existing(&mut o); o }", want_existing, "s"),
    }
    for k in kinds:
        call, want, src = calls[k]
        if by_kind and k in by_kind:
            want = by_kind[k]
        srcfmt = f'&format!("{{:?}}|pre={{:?}}", {src}, pre)' if "existing" in k else f'&format!("{{:?}}", {src})'
        D.append(f'        log.ev("{tag}", "{pre}{k}", d, {srcfmt}, &crate::rt::guard(|| {call}), &crate::rt::guard(|| {want}));')
    return D


# ---------------------------------------------------------------------------------------------------------------
# parameterised parent family

def gen_parent_case(g, cid, opts=None):
    r = g.r
    fc = FlatCase()
    fc.cid, fc.family = cid, "parent"
    fc.own = [dict(name=f"o{g.mark()}", ty=r.choice(LEAVES)) for _ in range(r.randint(0, 2))]
    fc.parents = []
    for _ in range(r.randint(1, 2)):
        tree = gen_tree(g, 0, r.choice([0, 1, 1, 2, 3]))
        tree.ty = f"P{g.mark()}"
        fc.parents.append((f"p{g.mark()}", tree))
    # flat counterpart: one field per leaf; renamed ones use [map(x)]
    fc.tfields = [dict(name=o["name"], ty=o["ty"]) for o in fc.own]
    fc.flags = set()
    for pname, tree in fc.parents:
        # a flattened value without further nesting may be a tuple struct: its members are addressed by index, have to name the counterpart's
        # field, and are listed in ascending index order (nested tuple structs inside a field-named deriving struct are outside what o2o renders)
        if not tree.children and g.chance(0.45):
            for path, n in walk(tree):
                n.tuple = True
                for i, l in enumerate(n.leaves):
                    l["name"] = i
                n.children = [(len(n.leaves) + j, ch) for j, (_, ch) in enumerate(n.children)]
            cands = [n for _, n in walk(tree) if len(n.leaves) >= 2]
            if cands and g.chance(0.2):
                # entries written in another order than the members' indices (same-typed, so that everything still compiles)
                n = r.choice(cands)
                # the written order is part of the case (both twins get the same one)
                n.permuted = list(range(len(n.leaves)))
                while n.permuted == list(range(len(n.leaves))):
                    r.shuffle(n.permuted)
                for l in n.leaves:
                    l["ty"] = "i32"
                fc.flags.add("parent_tuple_permuted")
        for path, n in walk(tree):
            for l in n.leaves:
                l["tname"] = l["name"] if (g.chance(0.6) and not n.tuple) else f"m{g.mark()}"
                fc.tfields.append(dict(name=l["tname"], ty=l["ty"]))
    # kind-split entries: two same-typed leaves of one flattened value whose nested instructions send them to *different* counterpart fields
    # depending on the conversion kind (every kind still fills every counterpart field exactly once); the into_existing kinds reach their
    # instruction through the documented fallback to the matching into flavour, or carry their own one
    cands = [n for _, tree in fc.parents for _, n in walk(tree) if not n.tuple and len(n.leaves) >= 2]
    split_form = None
    ks = (opts or {}).get("kind_split", "swap")   # "uniform": every kind keeps the leaf's own counterpart field (flavours stay comparable, C07)
    if cands and "parent_tuple_permuted" not in fc.flags and g.chance(0.4):
        n = r.choice(cands)
        a, b = r.sample(n.leaves, 2)
        b["ty"] = a["ty"]
        for t in fc.tfields:
            if t["name"] == b["tname"]:
                t["ty"] = a["ty"]
        form = r.choice(sorted(SPLIT_FORMS))
        a["split"] = (form, 0, b["tname"] if ks == "swap" else a["tname"])
        b["split"] = (form, 1, a["tname"] if ks == "swap" else b["tname"])
        split_form = form
    r.shuffle(fc.tfields)
    fc.depth = max(len(p) for _, t in fc.parents for p, _ in walk(t))
    fc.branching = max([len(n.children) for _, t in fc.parents for _, n in walk(t)] + [0])
    fc.perm = "n/a" if not split_form else "kind_split:" + split_form
    # which kinds are flavours of the *same* mapping (C07 compares only those): kind -> the designation of every flattened leaf under that kind
    fc.kind_classes = {k: tuple(leaf_tname(l, k) for _, tree in fc.parents for _, n in walk(tree) for l in n.leaves) for k in KINDS}
    return fc


# nested instruction sets of a kind-split entry: (instruction name, 0 = the leaf's own counterpart field / 1 = its partner's); the sets are
# slot-disjoint, so exactly one instruction applies to each kind
SPLIT_FORMS = {
    "F1": [("from_owned", 0), ("from_ref", 1), ("owned_into", 0), ("ref_into", 1)],
    "F2": [("map_owned", 0), ("map_ref", 1)],
    "F3": [("from", 0), ("owned_into", 0), ("ref_into", 1)],
    "F4": [("from", 0), ("owned_into", 0), ("ref_into", 0), ("owned_into_existing", 1)],
    "F5": [("map", 0), ("ref_into_existing", 1)],
    "F6": [("from", 1), ("into", 0), ("into_existing", 1)],
}
# which instruction names serve which kind (written from the README's naming scheme, not read from /repo)
SPLIT_SERVES = {
    "owned_into": ["owned_into", "into", "map_owned", "map"], "ref_into": ["ref_into", "into", "map_ref", "map"],
    "from_owned": ["from_owned", "from", "map_owned", "map"], "from_ref": ["from_ref", "from", "map_ref", "map"],
    "owned_into_existing": ["owned_into_existing", "into_existing"], "ref_into_existing": ["ref_into_existing", "into_existing"],
}


def leaf_tname(l, kind):
    """counterpart field a flattened leaf is mapped to under one conversion kind"""
    sp = l.get("split")
    if not sp:
        return l["tname"]
    form, side, partner = sp
    names = dict(SPLIT_FORMS[form])
    for k in (kind, kind.replace("_existing", "")):
        hit = [nm for nm in SPLIT_SERVES[k] if nm in names]
        if hit:
            assert len(hit) == 1, (form, kind, hit)
            return l["tname"] if names[hit[0]] == 0 else partner
    raise AssertionError((form, kind))


def parent_args(g, node, typed):
    r = g.r
    ents = []
    for l in node.leaves:
        if l.get("split"):
            form, side, partner = l["split"]
            ins = [f"[{nm}({l['tname'] if w == 0 else partner})]" for nm, w in SPLIT_FORMS[form]]
            r.shuffle(ins)
            ents.append(" ".join(ins) + f" {l['name']}")
        elif l["tname"] != l["name"]:
            form = r.choice(["map", "from+into"]) if True else "map"
            if form == "map":
                ents.append(f"[map({l['tname']})] {l['name']}")
            else:
                ents.append(f"[from({l['tname']})] [into({l['tname']})] {l['name']}")
        else:
            ents.append(l["name"])
    for fn, ch in node.children:
        ents.append(f"[parent({parent_args(g, ch, typed)})] {fn}" + (f": {ch.ty}" if typed else ""))
    if node.tuple:
        if getattr(node, "permuted", None):
            k = len(node.leaves)
            ents[:k] = [ents[i] for i in node.permuted]
        return ", ".join(ents)
    r.shuffle(ents)
    # a single bare identifier would be read as a dedicated type: keep a bracketed entry first in that case
    if len(ents) == 1 and not ents[0].startswith("["):
        ents = [f"[map({ents[0]})] {ents[0]}"]
    return ", ".join(ents)


def render_parent_module(fc, g, fallible, draws):
    r = g.r
    it = Item("struct", "S", shape="named", vis="pub ")
    names = []
    todo = set(KINDS)
    shorts = list(TRAIT_SHORT.items())
    r.shuffle(shorts)
    for sh, ks in shorts:
        if set(ks) <= todo and g.chance(0.6):
            names.append(sh)
            todo -= set(ks)
    names += sorted(todo)
    r.shuffle(names)
    for nm in names:
        it.attrs.append(Instr(FALLIBLE_NAME[nm] if fallible else nm, "trait", ty="T", hint=None, err="super::Er" if fallible else None, params=[]))
    flds = [Field(o["name"], o["ty"]) for o in fc.own]
    for pname, tree in fc.parents:
        flds.append(Field(pname, tree.ty, [Instr("parent", "parent", container=None, fields=parent_args(g, tree, True))]))
    import random as _random
    _random.Random(fc.cid).shuffle(flds)   # same member order in the infallible and the fallible twin (C07 compares them on equal inputs)
    it.fields = flds
    derive_src = it.render(derive="#[derive(Clone, Debug, PartialEq, o2o::o2o)]")
    L = ["use super::*;", "use o2o::traits::*;"]
    for pname, tree in fc.parents:
        L.append(type_defs(tree))
    L.append("#[derive(Clone, Debug, PartialEq, Default)]\npub struct T { " + " ".join(f"pub {t['name']}: {t['ty']}," for t in fc.tfields) + " }")
    L += [derive_src, ""]
    wrap = (lambda e: f"Ok::<_, super::Er>({e})") if fallible else (lambda e: e)
    split = any(l.get("split") for _, tree in fc.parents for _, n in walk(tree) for l in n.leaves)
    by_kind = {}
    for kind in (KINDS if split else ["from_ref", "ref_into"]):
        if kind.startswith("from"):
            svals = []
            for f in it.fields:
                tree = next((t for pn, t in fc.parents if pn == f.name), None)
                if tree is None:
                    svals.append(f"{f.name}: t.{f.name},")
                else:
                    svals.append(f"{f.name}: {tree_value(tree, lambda p, l: 't.' + leaf_tname(l, kind))},")
            fn = f"want_{kind}" if split else "ref_from"
            L.append(f"fn {fn}(t: &T) -> {'Result<S, super::Er>' if fallible else 'S'} {{ {wrap('S { ' + ' '.join(svals) + ' }')} }}")
            by_kind[kind] = f"{fn}(&t)"
        else:
            tv = {}
            for o in fc.own:
                tv[o["name"]] = f"s.{o['name']}"
            for pname, tree in fc.parents:
                for path, n in walk(tree):
                    for l in n.leaves:
                        assert leaf_tname(l, kind) not in tv
                        tv[leaf_tname(l, kind)] = "s." + ".".join((pname,) + path + (str(l["name"]),))
            tbody = "T { " + " ".join(t["name"] + ": " + tv[t["name"]] + "," for t in fc.tfields) + " }"
            fn = f"want_{kind}" if split else "ref_into"
            L.append(f"fn {fn}(s: &S, pre: &T) -> {'Result<T, super::Er>' if fallible else 'T'} {{ {wrap(tbody)} }}")
            by_kind[kind] = f"{fn}(&s, &pre)"
    if not split:
        by_kind = None
    tag = f"c{fc.cid}{'f' if fallible else 'i'}"
    D = ["pub fn run(log: &mut crate::rt::Log) {", f"    let mut r = crate::rt::Rng::new({fc.cid + 8000});", f"    for d in 0..{draws}usize {{"]
    D.append("        let t: T = T { " + " ".join(f"{t['name']}: {rng_call(t['ty'])}," for t in fc.tfields) + " };")
    D.append("        let pre: T = T { " + " ".join(f"{t['name']}: {rng_call(t['ty'])}," for t in fc.tfields) + " };")
    sv = []
    for f in it.fields:
        tree = next((t for pn, t in fc.parents if pn == f.name), None)
        sv.append(f"{f.name}: {rng_call(f.ty) if tree is None else tree_value(tree, lambda p, l: rng_call(l['ty']))},")
    D.append("        let s: S = S { " + " ".join(sv) + " };")
    D += conv_driver(tag, fallible, "ref_from(&t)", "ref_into(&s, &pre)", "ref_into(&s, &pre)", by_kind=by_kind)
    D += ["    }", "}"]
    return "\n".join(L + D) + "\n", derive_src


# ---------------------------------------------------------------------------------------------------------------
# bare #[parent] family

def gen_bare_case(g, cid, opts=None):
    r = g.r
    fc = FlatCase()
    fc.cid, fc.family = cid, "bare"
    fc.own = [dict(name=f"o{g.mark()}", ty=r.choice(NUM)) for _ in range(r.randint(1, 3))]
    fc.inners = []
    for _ in range(r.randint(1, 2)):
        fc.inners.append(dict(fname=f"b{g.mark()}", ty=f"B{g.mark()}", leaves=[dict(name=f"i{g.mark()}", ty=r.choice(NUM), k=g.mark()) for _ in range(r.randint(1, 3))]))
    # counterpart-only leaves nobody maps: must survive into_existing untouched (and be Default in into)
    fc.extra = [dict(name=f"e{g.mark()}", ty=r.choice(NUM)) for _ in range(r.randint(0, 2))]
    # the inner type may also write a counterpart field the outer struct maps itself (through its own #[ghosts]): the pour
    # happens after the outer struct's own assignments, in every flavour, so the inner value wins
    fc.overlap = None
    if g.chance(0.5):
        o = r.choice(fc.own)
        fc.overlap = dict(inner=0, field=o["name"], ty=o["ty"], k=g.mark() % 90 + 1)
    fc.depth, fc.branching, fc.perm = 1, len(fc.inners), "n/a"
    # one leaf of the first inner type runs a fallible check in its Into expression (`chk(~, id)?`): when it fires, every fallible
    # Into / IntoExisting flavour of the *outer* struct has to surface that error
    # the deriving struct may be a tuple struct mapped to the field-named counterpart through `as {}` and #[map(name)] on its own members
    fc.s_tuple = g.pick([False, False, "named_t", "tuple_t", "tuple_t"])
    fc.chk = None
    if g.chance(0.5):
        l = fc.inners[0]["leaves"][0]
        l["ty"] = "i32"
        fc.chk = g.mark()
    return fc


def render_bare_module(fc, g, fallible, draws):
    r = g.r
    err = "super::Er" if fallible else None
    f = (lambda n: FALLIBLE_NAME[n]) if fallible else (lambda n: n)
    L = ["use super::*;", "use o2o::traits::*;"]
    st = getattr(fc, "s_tuple", False)          # False | "named_t" (tuple S, field-named T through `as {}`) | "tuple_t" (tuple S, tuple T, by position)
    tt = st == "tuple_t"
    # member order of S: the same in the infallible and the fallible twin
    order = [("own", o) for o in fc.own] + [("inner", b) for b in fc.inners]
    import random as _random
    _random.Random(fc.cid).shuffle(order)
    # T-side designation of every counterpart field
    tn = {}
    if tt:
        nxt = len(order)
        # own members may designate another slot than their own position (a permutation among the own members' slots)
        own_slots = [idx for idx, (kd, _) in enumerate(order) if kd == "own"]
        perm = list(own_slots)
        if len(own_slots) >= 2 and fc.cid % 2 == 0:
            _random.Random(fc.cid + 1).shuffle(perm)
        slot_of = dict(zip(own_slots, perm))
        for idx, (kd, x) in enumerate(order):
            if kd == "own":
                tn[x["name"]] = str(slot_of[idx])
            else:
                # the slot of the parent member itself is free on the counterpart: the inner type's first leaf lives there
                for li, l in enumerate(x["leaves"]):
                    if li == 0:
                        tn[l["name"]] = str(idx)
                    else:
                        tn[l["name"]] = str(nxt)
                        nxt += 1
        for e in fc.extra:
            tn[e["name"]] = str(nxt)
            nxt += 1
    else:
        for o in fc.own:
            tn[o["name"]] = o["name"]
        for b in fc.inners:
            for l in b["leaves"]:
                tn[l["name"]] = l["name"]
        for e in fc.extra:
            tn[e["name"]] = e["name"]
    tfields = [dict(name=o["name"], ty=o["ty"]) for o in fc.own] + [dict(name=l["name"], ty=l["ty"]) for b in fc.inners for l in b["leaves"]] + fc.extra
    if tt:
        tfields.sort(key=lambda t: int(tn[t["name"]]))
        L.append("#[derive(Clone, Debug, PartialEq, Default)]\npub struct T(" + ", ".join(f"pub {t['ty']}" for t in tfields) + ");")
    else:
        L.append("#[derive(Clone, Debug, PartialEq, Default)]\npub struct T { " + " ".join(f"pub {t['name']}: {t['ty']}," for t in tfields) + " }")

    def mk_t(pairs):
        """pairs: [(counterpart field key, expr)] for every field of T"""
        if tt:
            return "T(" + ", ".join(e for _, e in sorted(pairs, key=lambda p_: int(tn[p_[0]]))) + ")"
        return "T { " + " ".join(f"{tn[k]}: {e}," for k, e in pairs) + " }"
    inputs = []
    for b in fc.inners:
        bi = Item("struct", b["ty"], shape="named", vis="pub ")
        bi.attrs = [Instr(f("from_ref"), "trait", ty="T", hint=None, err=err, params=[]), Instr(f("into_existing"), "trait", ty="T", hint=None, err=err, params=[])]
        for l in b["leaves"]:
            # the inner type's own instructions carry a marker constant: routing through them is visible in the values
            x = "~"
            if fallible and fc.chk is not None and b is fc.inners[0] and l is b["leaves"][0]:
                x = f"super::chk(~, {fc.chk})?"
            mem = int(tn[l["name"]]) if tt else None
            bi.fields.append(Field(l["name"], l["ty"], [Instr("from", "map", container=None, member=mem, action=f"~.wrapping_add({l['k'] % 50 + 1})", braced=False),
                                                        Instr("into", "map", container=None, member=mem, action=f"{x}.wrapping_sub({l['k'] % 50 + 1})", braced=False)]))
        if fc.overlap and fc.inners.index(b) == fc.overlap["inner"]:
            bi.attrs.append(Instr("ghosts", "ghosts", container=None, entries=[dict(path=None, ident=tn[fc.overlap["field"]], action=str(fc.overlap["k"]))]))
        src = bi.render(derive="#[derive(Clone, Debug, PartialEq, Default, o2o::o2o)]")
        inputs.append(src)
        L.append(src)
    it = Item("struct", "S", shape="tuple" if st else "named", vis="pub ")
    names = []
    todo = set(KINDS)
    shorts = list(TRAIT_SHORT.items())
    r.shuffle(shorts)
    for sh, ks in shorts:
        if set(ks) <= todo and g.chance(0.6):
            names.append(sh)
            todo -= set(ks)
    names += sorted(todo)
    r.shuffle(names)
    for nm in names:
        it.attrs.append(Instr(f(nm), "trait", ty="T", hint=("{}" if st == "named_t" else None), err=err, params=[]))
    flds = []
    for kd, x in order:
        if kd == "own":
            # by position an own member needs no instruction; half of them name their index explicitly all the same, and a member
            # that designates another slot than its own position always does (some with expressions on the way)
            slot = int(tn[x["name"]]) if tt else None
            explicit = tt and ((fc.cid + len(flds)) % 2 == 0 or slot != len(flds))
            kx = (fc.cid * 7 + len(flds)) % 40 + 1
            with_expr = tt and explicit and (fc.cid + len(flds)) % 4 == 0
            x["kx"] = kx if with_expr else None
            if st == "named_t":
                at_ = [Instr("map", "map", container=None, member=x["name"], action=None)]
            elif with_expr:
                at_ = [Instr("from", "map", container=None, member=slot, action=f"~.wrapping_add({kx})", braced=False), Instr("into", "map", container=None, member=slot, action=f"~.wrapping_sub({kx})", braced=False)]
            elif explicit:
                at_ = [Instr("map", "map", container=None, member=slot, action=None)]
            else:
                at_ = []
            flds.append(Field(x["name"], x["ty"], at_))
        else:
            flds.append(Field(x["fname"], x["ty"], [Instr("parent", "parent", container=None, fields=None)]))
    it.fields = flds
    # field name -> how the reference functions and the driver address it
    acc = {fl.name: (str(i) if st else fl.name) for i, fl in enumerate(flds)}
    derive_src = it.render(derive="#[derive(Clone, Debug, PartialEq, o2o::o2o)]")
    L += [derive_src, ""]
    wrap = (lambda e: f"Ok::<_, super::Er>({e})") if fallible else (lambda e: e)
    sv = []
    lbl = (lambda n: "") if st else (lambda n: f"{n}: ")
    for fl in it.fields:
        b = next((x for x in fc.inners if x["fname"] == fl.name), None)
        if b is None:
            o_ = next(o for o in fc.own if o["name"] == fl.name)
            sv.append(f"{lbl(fl.name)}t.{tn[fl.name]}" + (f".wrapping_add({o_['kx']})" if o_.get("kx") else "") + ",")
        else:
            sv.append(f"{lbl(fl.name)}{b['ty']} {{ " + " ".join(f"{l['name']}: t.{tn[l['name']]}.wrapping_add({l['k'] % 50 + 1})," for l in b["leaves"]) + " },")
    sctor = (lambda parts: "S(" + " ".join(parts) + ")") if st else (lambda parts: "S { " + " ".join(parts) + " }")
    L.append(f"fn ref_from(t: &T) -> {'Result<S, super::Er>' if fallible else 'S'} {{ {wrap(sctor(sv))} }}")

    def tvals(existing):
        v = [(o["name"], (f"s.{acc[o['name']]}" + (f".wrapping_sub({o['kx']})" if o.get("kx") else "")) if not (fc.overlap and fc.overlap["field"] == o["name"]) else str(fc.overlap["k"])) for o in fc.own]
        for b in fc.inners:
            v += [(l["name"], f"s.{acc[b['fname']]}.{l['name']}.wrapping_sub({l['k'] % 50 + 1})") for l in b["leaves"]]
        v += [(e["name"], f"pre.{tn[e['name']]}" if existing else "Default::default()") for e in fc.extra]
        return mk_t(v)
    chk_path = f"s.{acc[fc.inners[0]['fname']]}.{fc.inners[0]['leaves'][0]['name']}" if fc.chk is not None else None
    guard = f"if {chk_path} % 5 == 0 {{ return Err(super::Er({fc.chk})); }} " if (fallible and fc.chk is not None) else ""
    L.append(f"fn ref_into(s: &S, pre: &T) -> {'Result<T, super::Er>' if fallible else 'T'} {{ {guard}{wrap(tvals(False))} }}")
    L.append(f"fn ref_existing(s: &S, pre: &T) -> {'Result<T, super::Er>' if fallible else 'T'} {{ {guard}{wrap(tvals(True))} }}")
    tag = f"c{fc.cid}{'f' if fallible else 'i'}"
    D = ["pub fn run(log: &mut crate::rt::Log) {", f"    let mut r = crate::rt::Rng::new({fc.cid + 8500});", f"    for d in 0..{draws}usize {{"]
    D.append("        let t: T = " + mk_t([(t["name"], rng_call(t["ty"])) for t in tfields]) + ";")
    D.append("        let pre: T = " + mk_t([(t["name"], rng_call(t["ty"])) for t in tfields]) + ";")
    svv = []
    for fl in it.fields:
        b = next((x for x in fc.inners if x["fname"] == fl.name), None)
        svv.append(f"{lbl(fl.name)}{rng_call(fl.ty)}," if b is None else f"{lbl(fl.name)}{b['ty']} {{ " + " ".join(f"{l['name']}: {rng_call(l['ty'])}," for l in b["leaves"]) + " },")
    D.append("        let s: S = " + sctor(svv) + ";")
    if fc.chk is not None:
        D.append(f"        let mut s = s; if d % 3 == 0 {{ {chk_path} = ({chk_path} / 5).wrapping_mul(5); }}")
        if fallible:
            D.append(f'        log.ev("{tag}", "chk_inputs", d, "", &format!("false,{{}}", {chk_path} % 5 == 0), "{fc.chk}");')
    D += conv_driver(tag, fallible, "ref_from(&t)", "ref_into(&s, &pre)", "ref_existing(&s, &pre)")
    D += ["    }", "}"]
    return "\n".join(L + D) + "\n", "\n".join(inputs + [derive_src])


# ---------------------------------------------------------------------------------------------------------------
# all-tuple child family (tests 9/10 `unnamed2unnamed`): tuple flat struct, tuple counterpart tree, everything addressed by index

def gen_tchild_case(g, cid, opts=None):
    r = g.r
    fc = FlatCase()
    fc.cid, fc.family = cid, "tchild"
    fc.root = gen_tree(g, 0, r.choice([1, 1, 2, 3]), root=True)
    for path, n in walk(fc.root):
        n.tuple = True
        for i, l in enumerate(n.leaves):
            l["name"] = i
        n.children = [(len(n.leaves) + j, ch) for j, (_, ch) in enumerate(n.children)]
    # S fields in the positional order of the flattened tree (members of a node: its leaves, then its nested structs)
    fc.fields = []
    for path, n in walk(fc.root):
        for l in n.leaves:
            kf = g.mark() if g.chance(0.3) else None
            fc.fields.append(dict(ty=l["ty"], path=path, leaf=l, k_from=kf, k_into=(g.mark() if kf is not None else None)))
    fc.depth = max(len(p) for p, _ in walk(fc.root))
    fc.branching = max([len(n.children) for _, n in walk(fc.root)] + [0])
    fc.perm = "tuple_tree"
    fc.hint = r.choice([None, "()"])
    return fc


def render_tchild_module(fc, g, fallible, draws):
    r = g.r
    it = Item("struct", "S", shape="tuple", vis="pub ")
    names = []
    todo = set(KINDS)
    shorts = list(TRAIT_SHORT.items())
    r.shuffle(shorts)
    for sh, ks in shorts:
        if set(ks) <= todo and g.chance(0.6):
            names.append(sh)
            todo -= set(ks)
    names += sorted(todo)
    r.shuffle(names)
    for nm in names:
        it.attrs.append(Instr(FALLIBLE_NAME[nm] if fallible else nm, "trait", ty="T", hint=fc.hint, err="super::Er" if fallible else None, params=[]))
    pstr = lambda p: " .".join(p)
    cps = [dict(path=pstr(p), ty=n.ty, hint=None) for p, n in walk(fc.root) if p]
    r.shuffle(cps)
    if cps:
        it.attrs.append(Instr("child_parents", "child_parents", container=None, entries=cps))
    for i, f in enumerate(fc.fields):
        at = []
        if f["path"]:
            at.append(Instr("child", "child", container=None, path=pstr(f["path"])))
        idx = f["leaf"]["name"]
        explicit = bool(f["path"]) or f["k_from"] is not None or (fc.cid + i) % 3 == 0
        if f["k_from"] is not None:
            at.append(Instr("from", "map", container=None, member=idx, action=rnd_expr(f["ty"], f["k_from"], "~"), braced=bool(f["k_from"] % 2)))
            at.append(Instr("into", "map", container=None, member=idx, action=rnd_expr(f["ty"], f["k_into"], "~"), braced=bool(f["k_into"] % 2)))
        elif explicit:
            at.append(Instr("map", "map", container=None, member=idx, action=None))
        it.fields.append(Field(None, f["ty"], at))
    derive_src = it.render(derive="#[derive(Clone, Debug, PartialEq, o2o::o2o)]")
    L = ["use super::*;", "use o2o::traits::*;", type_defs(fc.root), derive_src, ""]
    wrap = (lambda e: f"Ok::<_, super::Er>({e})") if fallible else (lambda e: e)
    svals = []
    for f in fc.fields:
        x = "t." + ".".join(f["path"] + (str(f["leaf"]["name"]),))
        svals.append(x if f["k_from"] is None else rnd_expr(f["ty"], f["k_from"], x))
    L.append(f"fn ref_from(t: &T) -> {'Result<S, super::Er>' if fallible else 'S'} {{ {wrap('S(' + ', '.join(svals) + ')')} }}")
    by_leaf = {id(f["leaf"]): i for i, f in enumerate(fc.fields)}

    def into_leaf(path, l):
        i = by_leaf[id(l)]
        f = fc.fields[i]
        return f"s.{i}" if f["k_into"] is None else rnd_expr(f["ty"], f["k_into"], f"s.{i}")
    L.append(f"fn ref_into(s: &S, pre: &T) -> {'Result<T, super::Er>' if fallible else 'T'} {{ {wrap(tree_value(fc.root, into_leaf))} }}")
    tag = f"c{fc.cid}{'f' if fallible else 'i'}"
    D = ["pub fn run(log: &mut crate::rt::Log) {", f"    let mut r = crate::rt::Rng::new({fc.cid + 7300});", f"    for d in 0..{draws}usize {{"]
    D.append("        let t: T = " + tree_value(fc.root, lambda p, l: rng_call(l["ty"])) + ";")
    D.append("        let pre: T = " + tree_value(fc.root, lambda p, l: rng_call(l["ty"])) + ";")
    D.append("        let s: S = S(" + ", ".join(rng_call(f["ty"]) for f in fc.fields) + ");")
    D += conv_driver(tag, fallible, "ref_from(&t)", "ref_into(&s, &pre)", "ref_into(&s, &pre)")
    D += ["    }", "}"]
    return "\n".join(L + D) + "\n", derive_src


def gen_case(g, cid, opts=None):
    fam = (opts or {}).get("family") or g.pick(["child", "child", "child", "parent", "parent", "bare", "tchild"])
    return {"child": gen_child_case, "parent": gen_parent_case, "bare": gen_bare_case, "tchild": gen_tchild_case}[fam](g, cid, opts)


def render_case(fc, g, draws):
    rm = {"child": render_child_module, "parent": render_parent_module, "bare": render_bare_module, "tchild": render_tchild_module}[fc.family]
    ci, di = rm(fc, g, False, draws)
    cf, df = rm(fc, g, True, draws)
    code = PRELUDE + "pub mod inf {\n" + ci + "}\npub mod fal {\n" + cf + "}\npub fn run(log: &mut crate::rt::Log) { inf::run(log); fal::run(log); }\n"
    return code, di, df
