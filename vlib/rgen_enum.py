"""Level-R generator, enum family (C02): spec -> derive input + reference `match` functions + driver.
Documented-valid domain: README 'Enum Examples', tests 27-30, 35-37, 39, 41-44."""
from .model import Instr, Field, Variant, Item, FALLIBLE_NAME, TRAIT_SHORT
from .rgen import NUM, rnd_expr, rng_call, const_of, PRELUDE

LEAVES = ["i8", "i32", "i64", "u8", "u16", "bool", "char", "String"]


class PF:
    """payload field of an S variant"""

    def __init__(self, name, ty):
        self.name, self.ty = name, ty
        self.desig = "same"      # same | rename | expr | ghost
        self.tname = None        # counterpart field name / index
        self.k_owned = self.k_ref = None
        self.ref_form = "clone"  # clone | deref
        self.ghost_k = None


class V:
    def __init__(self, name, shape):
        self.name, self.shape = name, shape
        self.fields = []
        self.tname = name
        self.tshape = shape
        self.hint = None
        self.t_only = []         # [(tname, ty, k)] counterpart-only payload fields (variant-level #[ghosts])
        self.ghost = None        # None | dict(mode='expr'|'nodefault', target=...) S-only variant
        self.vexpr = None        # marker for variant-level expression
        self.rename_form = "map"
        self.permuted = False
        self.t_only_kref = None  # marker of the by-ref flavour when the variant-level ghosts are written as ghosts_owned + ghosts_ref

    def t_order(self):
        """mapped payload fields in the counterpart's positional order"""
        mapped = [f for f in self.fields if f.desig != "ghost"]
        return sorted(mapped, key=lambda f: f.tname) if self.permuted else mapped


class TOnly:
    def __init__(self, name, shape, fields):
        self.name, self.shape, self.fields = name, shape, fields   # fields: [(name|idx, ty)]
        self.k = None
        self.form = "member"


class EnumCase:
    pass


def binding(vs, f, side):
    """name the payload is bound to in the match pattern on `side` ('s' or 't')"""
    if side == "s":
        return f.name if vs.shape == "named" else f"f{f.name}"
    return f.tname if vs.tshape == "named" else f"f{f.tname}"


def gen_enum_case(g, cid, opts=None):
    r = g.r
    ec = EnumCase()
    ec.cid = cid
    nv = r.randint(1, 6)
    ec.vs = []
    ec.from_only = False
    ec.flags = set()
    for i in range(nv):
        shape = r.choice(["unit", "tuple", "named", "tuple", "named"])
        v = V(f"V{i}", shape)
        for j in range(0 if shape == "unit" else r.randint(1, 4)):
            f = PF(f"x{j}" if shape == "named" else j, r.choice(LEAVES))
            v.fields.append(f)
        # variant-level designation
        roll = r.random()
        if roll < 0.25:
            v.tname = f"W{g.mark()}"
            v.rename_form = r.choice(["map", "map", "from+into", "map_owned+map_ref"])
        # form switch through type hints
        roll = r.random()
        if shape == "named" and roll < 0.15:
            v.hint, v.tshape = "()", "tuple"
        elif shape == "tuple" and roll < 0.15:
            v.hint, v.tshape = "{}", "named"
        elif shape != "unit" and roll < 0.22:
            v.hint, v.tshape = "Unit", "unit"
        # payload designations
        for idx, f in enumerate(v.fields):
            f.tname = f.name
            if v.tshape == "unit":
                f.desig = "ghost"
                f.ghost_k = g.mark()
                continue
            roll = r.random()
            if v.hint == "{}":
                f.desig = "rename"
                f.tname = f"n{g.mark()}"
            elif roll < 0.2 and v.shape == "named" and v.tshape == "named":
                f.desig = "rename"
                f.tname = f"n{g.mark()}"
            elif roll < 0.45:
                f.desig = "expr"
            f.k_owned = g.mark()
            f.k_ref = g.mark() if (g.chance(0.5) and not (opts or {}).get("uniform")) else f.k_owned
            f.ref_form = "deref" if (f.ty != "String" and g.chance(0.5)) else "clone"
        # S-only payload fields (ghost with default). Where the counterpart is addressed by name (named variant, or tuple
        # variant with `as {}`) the ghost may sit anywhere; in positional layouts it is kept last so that positions coincide
        if v.tshape != "unit" and v.fields and g.chance(0.3) and v.hint in (None, "{}"):
            by_name = (shape == "named" and v.tshape == "named") or v.hint == "{}"
            pos = r.randint(0, len(v.fields)) if by_name else len(v.fields)
            f = PF(f"gx{g.mark()}" if shape == "named" else pos, r.choice(LEAVES))
            f.desig = "ghost"
            f.ghost_k = g.mark()
            v.fields.insert(pos, f)
            if shape != "named":
                for i2, f2 in enumerate(v.fields):
                    if f2.tname == f2.name and f2.desig != "ghost":
                        f2.tname = i2
                    f2.name = i2
        # counterpart-only payload fields
        if v.tshape in ("tuple", "named") and v.shape != "unit" and g.chance(0.25) and v.hint is None:
            n_mapped = len([f for f in v.fields if f.desig != "ghost"])
            k = g.mark()
            v.t_only.append((f"go{k}" if v.tshape == "named" else n_mapped, r.choice(LEAVES), k))
            v.t_only_kref = g.mark() if (g.chance(0.4) and not (opts or {}).get("uniform")) else None
        ec.vs.append(v)
    # From-only sub-family: positional counterpart payloads addressed by explicit index, in permuted order (`#[from(1, expr)]`)
    pinto = (opts or {}).get("permuted_into", False)   # region 'permuted_into': the Into kinds are requested as well (open finding F39)
    if pinto or (opts or {}).get("permuted", g.chance(0.2)):
        ec.from_only = not pinto
        for v in ec.vs:
            mapped = [f for f in v.fields if f.desig != "ghost"]
            if v.tshape != "tuple" or len(mapped) < 2 or len(mapped) != len(v.fields) or v.t_only:
                continue
            perm = list(range(len(mapped)))
            while perm == sorted(perm):
                r.shuffle(perm)
            for f, p_ in zip(mapped, perm):
                f.tname = p_
                if f.desig == "same" and g.chance(0.5):
                    f.desig = "expr"
                if pinto:
                    f.ty = "i32"      # same-typed, so that the mis-wired Into still compiles and the From impls of the program stay checked
            v.permuted = True
            v.permuted_from_only = not pinto
            ec.flags.add("permuted" if not pinto else "permuted_into")
    # S-only (ghost) variants
    ec.default_case = None
    if g.chance(0.35):
        shape = r.choice(["unit", "tuple", "named"])
        v = V(f"G{g.mark()}", shape)
        for j in range(0 if shape == "unit" else r.randint(1, 2)):
            v.fields.append(PF(f"y{j}" if shape == "named" else j, r.choice(LEAVES)))
        mode = r.choice(["target", "target", "panic", "err", "nodefault"])
        v.ghost = dict(mode=mode, k=g.mark())
        if mode == "nodefault":
            ec.default_case = dict(mode=r.choice(["target", "panic", "err"]), k=g.mark())
        ec.vs.insert(r.randint(0, len(ec.vs)), v)
    # counterpart-only variants (enum-level #[ghosts])
    ec.t_only = []
    ec.ghosts_split = False
    if g.chance(0.35):
        for _ in range(r.randint(1, 2)):
            shape = r.choice(["unit", "tuple", "named"])
            t = TOnly(f"X{g.mark()}", shape, [((f"z{j}" if shape == "named" else j), r.choice(LEAVES)) for j in range(0 if shape == "unit" else r.randint(1, 2))])
            t.k = g.mark()
            t.k_ref = t.k
            t.mode = r.choice(["target", "target", "panic", "err"])
            ec.t_only.append(t)
        # the enum-level ghosts may be written as ghosts_owned + ghosts_ref with different markers per ownership
        ec.ghosts_split = g.chance(0.35) and not (opts or {}).get("uniform")
        if ec.ghosts_split:
            for t in ec.t_only:
                t.k_ref = g.mark()
        if ec.default_case is None and g.chance(0.4):
            # one of the counterpart-only variants is left to the `_ =>` default case
            ec.default_case = dict(mode=r.choice(["target", "panic", "err"]), k=g.mark())
            ec.t_only[-1].mode = "default"
    # the variant that ghost defaults / default cases produce
    normal = [v for v in ec.vs if v.ghost is None]
    ec.fallback_s = next((v for v in normal if v.shape == "unit"), None)
    ec.fallback_t = next((v for v in normal if v.tshape == "unit"), None)
    if ec.fallback_s is None or ec.fallback_t is None:
        v = V(f"U{g.mark()}", "unit")
        ec.vs.append(v)
        ec.fallback_s = ec.fallback_t = v
    return ec


def divert(mode, k, fallible, target_expr):
    """expression a ghost / default case evaluates to"""
    if mode == "panic" or (mode == "err" and not fallible):
        return f'panic!("d{k}")'
    if mode == "err":
        return f"Err(super::Er({k}))?"
    return f"{{ crate::rt::probe_mark({k}); {target_expr} }}"


def payload_attrs(v, f, fallible=False, flip=0):
    """flip: bit 0 -> owned instruction uses its try_ name, bit 1 -> by-ref instruction does (fallible twin only)"""
    out = []
    if f.desig == "ghost":
        out.append(Instr("ghost", "ghost", container=None, action=const_of(f.ty, f.ghost_k), braced=True))
        return out
    member = f.tname if f.desig == "rename" or f.tname != f.name else None
    # owned kinds
    n_owned = "try_map_owned" if (fallible and flip & 1) else "map_owned"
    n_ref = "try_map_ref" if (fallible and flip & 2) else "map_ref"
    if v.permuted and getattr(v, "permuted_from_only", True):
        n_owned, n_ref = n_owned.replace("map", "from"), n_ref.replace("map", "from")
    if f.desig == "expr":
        out.append(Instr(n_owned, "map", container=None, member=member, action=rnd_expr(f.ty, f.k_owned, "~"), braced=False))
    elif member is not None:
        out.append(Instr(n_owned, "map", container=None, member=member, action=None))
    # by-ref kinds: bindings are references
    base = "~.clone()" if f.ref_form == "clone" else "*~"
    e = rnd_expr(f.ty, f.k_ref, f"({base})") if f.desig == "expr" else base
    out.append(Instr(n_ref, "map", container=None, member=member, action=e, braced=False))
    return out


def ref_payload(f, x, ref, v=None):
    """reference value of a mapped payload field given source expression x (already a value)"""
    if f.desig == "expr":
        return rnd_expr(f.ty, f.k_ref if ref else f.k_owned, x)
    return x


def render_enum_module(ec, g, fallible, draws):
    r = g.r
    it = Item("enum", "S", vis="pub ")
    kinds = ["from_owned", "from_ref", "owned_into", "ref_into"]
    if ec.from_only:
        kinds = ["from_owned", "from_ref"]
    # trait instructions
    names = []
    todo = set(kinds)
    shorts = [(k, v) for k, v in TRAIT_SHORT.items() if k != "into_existing"]
    import random as _random
    rr = _random.Random(ec.cid)      # same instruction names in the infallible and the fallible twin
    rr.shuffle(shorts)
    for sh, ks in shorts:
        if set(ks) <= todo and rr.random() < 0.6:
            names.append(sh)
            todo -= set(ks)
    names += sorted(todo)
    rr.shuffle(names)
    sfb = f"S::{ec.fallback_s.name}"
    tfb = f"T::{ec.fallback_t.tname}"
    from .model import kinds_of

    def one_way(nm):
        ks = kinds_of(nm)
        return all(k.startswith("from") for k in ks) or all(not k.startswith("from") for k in ks)
    # a default-case expression on a two-directional shortcut has to type-check as S and as T: only diverging forms do
    ec.dc_two_way = ec.default_case is not None and any(not one_way(nm) for nm in names)
    for nm in names:
        ps = []
        if ec.default_case is not None:
            dc = ec.default_case
            is_from = all(k.startswith("from") for k in kinds_of(nm))
            mode = dc["mode"] if not ec.dc_two_way else ("err" if dc["mode"] == "err" else "panic")
            ps.append(("default", "=> " + divert(mode, dc["k"], fallible, sfb if is_from else tfb)))
        it.attrs.append(Instr(FALLIBLE_NAME[nm] if fallible else nm, "trait", ty="T", hint=None, err="super::Er" if fallible else None, params=ps))
    # enum-level ghosts
    def enum_ghost_entries(ref):
        ents = []
        for t in ec.t_only:
            if t.mode == "default":
                continue
            expr = divert(t.mode, t.k_ref if ref else t.k, fallible, sfb)
            if t.shape == "unit":
                ents.append(dict(path=None, ident=t.name, action=expr))
            elif t.shape == "tuple":
                ents.append(dict(path=None, ident=None, destr=f"{t.name}(..)", action=expr))
            else:
                ents.append(dict(path=None, ident=None, destr=f"{t.name} {{ .. }}", action=expr))
        return ents
    ents = enum_ghost_entries(False)
    if ents or (ec.default_case is not None and any(t.mode == "default" for t in ec.t_only)):
        if ec.ghosts_split and ents:
            pair = [Instr("ghosts_owned", "ghosts", container=None, entries=ents, spelling="o2o"), Instr("ghosts_ref", "ghosts", container=None, entries=enum_ghost_entries(True), spelling="o2o")]
            it.attrs += pair if ec.cid % 2 else pair[::-1]
        else:
            it.attrs.append(Instr("ghosts", "ghosts", container=None, entries=ents))
    # variants
    for v in ec.vs:
        attrs = []
        if v.ghost is not None:
            if v.ghost["mode"] == "nodefault":
                attrs.append(Instr("ghost", "ghost", container=None, action=None))
            else:
                attrs.append(Instr("ghost", "ghost", container=None, action=divert(v.ghost["mode"], v.ghost["k"], fallible, tfb), braced=True))
        else:
            if v.tname != v.name:
                if v.rename_form == "map":
                    attrs.append(Instr("map", "map", container=None, member=v.tname, action=None))
                elif v.rename_form == "from+into":
                    attrs += [Instr("from", "map", container=None, member=v.tname, action=None), Instr("into", "map", container=None, member=v.tname, action=None)]
                else:
                    attrs += [Instr("map_owned", "map", container=None, member=v.tname, action=None), Instr("map_ref", "map", container=None, member=v.tname, action=None)]
            if v.hint:
                attrs.append(Instr("type_hint", "type_hint", container=None, hint=v.hint))
            if v.t_only and v.t_only_kref is not None:
                pair = [Instr("ghosts_owned", "ghosts", container=None, entries=[dict(path=None, ident=n, action=const_of(ty, k)) for n, ty, k in v.t_only], spelling="o2o"),
                        Instr("ghosts_ref", "ghosts", container=None, entries=[dict(path=None, ident=n, action=const_of(ty, v.t_only_kref)) for n, ty, k in v.t_only], spelling="o2o")]
                attrs += pair if ec.cid % 2 else pair[::-1]
            elif v.t_only:
                attrs.append(Instr("ghosts", "ghosts", container=None, entries=[dict(path=None, ident=n, action=const_of(ty, k)) for n, ty, k in v.t_only]))
        fields = []
        for f in v.fields:
            fa = payload_attrs(v, f, fallible, (ec.cid + len(fields) + len(it.variants)) % 4) if v.ghost is None else []
            fields.append(Field(f.name if v.shape == "named" else None, f.ty, fa))
        it.variants.append(Variant(v.name, v.shape, fields, attrs))
    derive_src = it.render(derive="#[derive(Clone, Debug, PartialEq, o2o::o2o)]")
    # counterpart type
    tv = []
    for v in ec.vs:
        if v.ghost is not None:
            continue
        mapped = [f for f in v.fields if f.desig != "ghost"]
        if v.tshape == "unit":
            tv.append(f"{v.tname},")
        elif v.tshape == "tuple":
            cols = [f.ty for f in v.t_order()] + [ty for _, ty, _ in v.t_only]
            tv.append(f"{v.tname}(" + ", ".join(cols) + "),")
        else:
            cols = [f"{f.tname}: {f.ty}" for f in mapped] + [f"{n}: {ty}" for n, ty, _ in v.t_only]
            tv.append(f"{v.tname} {{ " + ", ".join(cols) + " },")
    for t in ec.t_only:
        if t.shape == "unit":
            tv.append(f"{t.name},")
        elif t.shape == "tuple":
            tv.append(f"{t.name}(" + ", ".join(ty for _, ty in t.fields) + "),")
        else:
            tv.append(f"{t.name} {{ " + ", ".join(f"{n}: {ty}" for n, ty in t.fields) + " },")
    L = ["use super::*;", "#[derive(Clone, Debug, PartialEq)]", "pub enum T { " + " ".join(tv) + " }", derive_src, ""]

    def refdiv(mode, k, target):
        if mode == "panic" or (mode == "err" and not fallible):
            return f'panic!("d{k}")'
        if mode == "err":
            return f"return Err(super::Er({k}))"
        return f"{{ crate::rt::probe_mark({k}); {target} }}"

    def pat(name, shape, binds, prefix):
        if shape == "unit":
            return f"{prefix}::{name}"
        if shape == "tuple":
            return f"{prefix}::{name}(" + ", ".join(binds) + ")"
        return f"{prefix}::{name} {{ " + ", ".join(binds) + " }"

    wrap = (lambda e: f"Ok({e})") if fallible else (lambda e: e)
    for ref in (False, True):
        # From: T -> S
        arms = []
        for v in ec.vs:
            if v.ghost is not None:
                continue
            mapped = [f for f in v.fields if f.desig != "ghost"]
            if v.tshape == "named":
                binds = [f"{f.tname}: b{i}" for i, f in enumerate(mapped)] + [".."]
            elif v.tshape == "tuple":
                binds = [f"b{i}" for i in range(len(mapped))] + [".."]
            else:
                binds = []
            vals = []
            mi = 0
            for f in v.fields:
                if f.desig == "ghost":
                    vals.append(const_of(f.ty, f.ghost_k))
                else:
                    vals.append(ref_payload(f, f"b{f.tname if v.permuted else mi}.clone()", ref))
                    mi += 1
            if v.shape == "unit":
                ctor = f"S::{v.name}"
            elif v.shape == "tuple":
                ctor = f"S::{v.name}(" + ", ".join(vals) + ")"
            else:
                ctor = f"S::{v.name} {{ " + ", ".join(f"{f.name}: {x}" for f, x in zip(v.fields, vals)) + " }"
            arms.append(f"{pat(v.tname, v.tshape, binds, 'T')} => {ctor},")
        for t in ec.t_only:
            p = pat(t.name, t.shape, [".."] if t.shape != "unit" else [], "T")
            if t.mode == "default":
                dc = ec.default_case
                arms.append(f"{p} => {refdiv(dc['mode'], dc['k'], sfb) if not getattr(ec, 'dc_two_way', False) else refdiv('panic' if dc['mode'] != 'err' else 'err', dc['k'], sfb)},")
            else:
                arms.append(f"{p} => {refdiv(t.mode, t.k_ref if ref else t.k, sfb)},")
        nm = "from_ref" if ref else "from_owned"
        L.append(f"#[allow(unreachable_code)] fn ref_{nm}(t: &T) -> {'Result<S, super::Er>' if fallible else 'S'} {{ {wrap('match t { ' + ' '.join(arms) + ' }')} }}")
        # Into: S -> T
        if ec.from_only:
            continue
        arms = []
        for v in ec.vs:
            if v.shape == "named":
                binds = [f"{f.name}: c{i}" for i, f in enumerate(v.fields)]
            elif v.shape == "tuple":
                binds = [f"c{i}" for i in range(len(v.fields))]
            else:
                binds = []
            p = pat(v.name, v.shape, binds, "S")
            if v.ghost is not None:
                if v.ghost["mode"] == "nodefault":
                    dc = ec.default_case
                    arms.append(f"{p} => {refdiv(dc['mode'], dc['k'], tfb) if not getattr(ec, 'dc_two_way', False) else refdiv('panic' if dc['mode'] != 'err' else 'err', dc['k'], tfb)},")
                else:
                    arms.append(f"{p} => {refdiv(v.ghost['mode'], v.ghost['k'], tfb)},")
                continue
            vals = []
            for i, f in enumerate(v.fields):
                if f.desig == "ghost":
                    continue
                vals.append((f.tname, ref_payload(f, f"c{i}.clone()", ref)))
            for n, ty, k in v.t_only:
                vals.append((n, const_of(ty, v.t_only_kref if (ref and v.t_only_kref is not None) else k)))
            if v.tshape == "unit":
                ctor = f"T::{v.tname}"
            elif v.tshape == "tuple":
                if v.permuted:
                    vals.sort(key=lambda nv: nv[0])     # the designated index decides the position
                ctor = f"T::{v.tname}(" + ", ".join(x for _, x in vals) + ")"
            else:
                ctor = f"T::{v.tname} {{ " + ", ".join(f"{n}: {x}" for n, x in vals) + " }"
            arms.append(f"{p} => {ctor},")
        nm = "ref_into" if ref else "owned_into"
        L.append(f"#[allow(unreachable_code, unused_variables)] fn ref_{nm}(s: &S) -> {'Result<T, super::Er>' if fallible else 'T'} {{ {wrap('match s { ' + ' '.join(arms) + ' }')} }}")
    # driver: every variant of each side x draws
    tag = f"c{ec.cid}{'f' if fallible else 'i'}"
    D = ["pub fn run(log: &mut crate::rt::Log) {", f"    let mut r = crate::rt::Rng::new({ec.cid + 5000});", f"    for d in 0..{draws}usize {{"]
    svals = []
    for v in ec.vs:
        if v.shape == "unit":
            svals.append(f"S::{v.name}")
        elif v.shape == "tuple":
            svals.append(f"S::{v.name}(" + ", ".join(rng_call(f.ty) for f in v.fields) + ")")
        else:
            svals.append(f"S::{v.name} {{ " + ", ".join(f"{f.name}: {rng_call(f.ty)}" for f in v.fields) + " }")
    tvals = []
    for v in ec.vs:
        if v.ghost is not None:
            continue
        mapped = [f for f in v.fields if f.desig != "ghost"]
        if v.tshape == "unit":
            tvals.append(f"T::{v.tname}")
        elif v.tshape == "tuple":
            tvals.append(f"T::{v.tname}(" + ", ".join([rng_call(f.ty) for f in v.t_order()] + [rng_call(ty) for _, ty, _ in v.t_only]) + ")")
        else:
            tvals.append(f"T::{v.tname} {{ " + ", ".join([f"{f.tname}: {rng_call(f.ty)}" for f in mapped] + [f"{n}: {rng_call(ty)}" for n, ty, _ in v.t_only]) + " }")
    for t in ec.t_only:
        if t.shape == "unit":
            tvals.append(f"T::{t.name}")
        elif t.shape == "tuple":
            tvals.append(f"T::{t.name}(" + ", ".join(rng_call(ty) for _, ty in t.fields) + ")")
        else:
            tvals.append(f"T::{t.name} {{ " + ", ".join(f"{n}: {rng_call(ty)}" for n, ty in t.fields) + " }")
    D.append("        let ss: Vec<S> = vec![" + ", ".join(svals) + "];")
    D.append("        let ts: Vec<T> = vec![" + ", ".join(tvals) + "];")
    pre = "try_" if fallible else ""
    if "from_owned" in kinds:
        D.append("        for t in ts.iter() {")
        call_o = "S::try_from(t.clone())" if fallible else "S::from(t.clone())"
        call_r = "S::try_from(t)" if fallible else "S::from(t)"
        D.append(f'            log.ev("{tag}", "{pre}from_owned", d, &format!("{{:?}}", t), &crate::rt::guard(|| {call_o}), &crate::rt::guard(|| ref_from_owned(t)));')
        D.append(f'            log.ev("{tag}", "{pre}from_ref", d, &format!("{{:?}}", t), &crate::rt::guard(|| {call_r}), &crate::rt::guard(|| ref_from_ref(t)));')
        D.append("        }")
    if "owned_into" in kinds:
        D.append("        for s in ss.iter() {")
        call_o = "{ let x: Result<T, super::Er> = s.clone().try_into(); x }" if fallible else "{ let x: T = s.clone().into(); x }"
        call_r = "{ let x: Result<T, super::Er> = s.try_into(); x }" if fallible else "{ let x: T = s.into(); x }"
        D.append(f'            log.ev("{tag}", "{pre}owned_into", d, &format!("{{:?}}", s), &crate::rt::guard(|| {call_o}), &crate::rt::guard(|| ref_owned_into(s)));')
        D.append(f'            log.ev("{tag}", "{pre}ref_into", d, &format!("{{:?}}", s), &crate::rt::guard(|| {call_r}), &crate::rt::guard(|| ref_ref_into(s)));')
        D.append("        }")
    D += ["    }", "}"]
    return "\n".join(L + D) + "\n", derive_src, kinds


def render_case(ec, g, draws):
    ci, di, ki = render_enum_module(ec, g, False, draws)
    cf, df, kf = render_enum_module(ec, g, True, draws)
    code = PRELUDE + "pub mod inf {\n" + ci + "}\npub mod fal {\n" + cf + "}\npub fn run(log: &mut crate::rt::Log) { inf::run(log); fal::run(log); }\n"
    return code, di, df, ki
