"""Shared infrastructure for the o2o runtime monitors (DESIGN §2).

Builds the drivers from /repo's current working tree, runs batches of derive inputs through
them in parallel, keeps the three-valued verdict discipline, known findings, evidence files.
"""
import hashlib
import json
import os
import random
import subprocess
import sys
import tempfile
import time
from concurrent.futures import ThreadPoolExecutor

VERIF = os.path.dirname(os.path.dirname(os.path.abspath(__file__)))
# The registered commands always run against /repo with /verif/work as scratch. O2O_REPO / VERIF_WORK / VERIF_OUT exist only
# for tools/eval_seeded.sh, which evaluates seeded changes on scratch copies of the repository in parallel.
REPO = os.environ.get("O2O_REPO", "/repo")
WORK = os.environ.get("VERIF_WORK", os.path.join(VERIF, "work"))
OUT = os.environ.get("VERIF_OUT", VERIF)     # where evidence/ and replays/ are written
NCPU = max(2, min(16, os.cpu_count() or 4))
ENV = dict(os.environ, CARGO_NET_OFFLINE="true", CARGO_TERM_COLOR="never")

GUARD_CFG = "o2o_verif"


class Inconclusive(Exception):
    pass


def seed():
    try:
        return int(os.environ.get("VERIF_SEED", "1"))
    except ValueError:
        return 1


def rng_for(prop, tier, extra=""):
    return random.Random(f"{seed()}/{prop}/{tier}/{extra}")


# ---------------------------------------------------------------------------------------------
# builds

def repo_hash():
    h = hashlib.sha256()
    for base in ("src", "o2o-impl/src", "o2o-macros/src"):
        d = os.path.join(REPO, base)
        for root, _, files in sorted(os.walk(d)):
            for f in sorted(files):
                p = os.path.join(root, f)
                h.update(os.path.relpath(p, REPO).encode())
                with open(p, "rb") as fh:
                    h.update(fh.read())
    for f in ("Cargo.toml", "o2o-impl/Cargo.toml", "o2o-macros/Cargo.toml", "Cargo.lock"):
        p = os.path.join(REPO, f)
        if os.path.exists(p):
            with open(p, "rb") as fh:
                h.update(fh.read())
    return h.hexdigest()


def _run(cmd, cwd, timeout=1800, env=None):
    try:
        p = subprocess.run(cmd, cwd=cwd, env=env or ENV, stdout=subprocess.PIPE, stderr=subprocess.STDOUT,
                           timeout=timeout, text=True, errors="replace")
    except subprocess.TimeoutExpired:
        raise Inconclusive(f"watchdog: {' '.join(cmd)[:80]} exceeded {timeout}s")
    return p.returncode, p.stdout


def cargo_build(crate_dir, target_dir, extra=(), toolchain=None, pkgs_to_clean=("o2o-impl", "o2o-macros", "o2o"),
                rustflags=None, profile_release=True):
    """Build a harness crate against /repo's current tree. Forces a clean of the o2o packages when the
    content hash of /repo changed (mtimes can lie after a restore)."""
    os.makedirs(target_dir, exist_ok=True)
    lock_src = os.path.join(REPO, "Cargo.lock")
    lock_dst = os.path.join(crate_dir, "Cargo.lock")
    if not os.path.exists(lock_dst) and os.path.exists(lock_src):
        with open(lock_src) as a, open(lock_dst, "w") as b:
            b.write(a.read())
    hfile = os.path.join(target_dir, ".repo_hash")
    cur = repo_hash()
    old = open(hfile).read().strip() if os.path.exists(hfile) else ""
    cargo = ["cargo"] + ([f"+{toolchain}"] if toolchain else [])
    env = dict(ENV)
    if rustflags is not None:
        env["RUSTFLAGS"] = rustflags
    if old and old != cur:
        for p in pkgs_to_clean:
            _run(cargo + ["clean", "--offline", "--target-dir", target_dir] + (["--release"] if profile_release else []) + ["-p", p],
                 crate_dir, env=env)
    cmd = cargo + ["build", "--offline", "--target-dir", target_dir] + (["--release"] if profile_release else []) + list(extra)
    rc, out = _run(cmd, crate_dir, env=env)
    if rc != 0:
        return False, out
    with open(hfile, "w") as fh:
        fh.write(cur)
    return True, out


_BUILT = {}


def harness_dir(name):
    """harness crates name /repo in their path dependency; for a scratch repository use a copy with the path rewritten"""
    src = os.path.join(VERIF, "harness", name)
    if REPO == "/repo":
        return src
    import shutil
    dst = os.path.join(WORK, "harness-" + name)
    if not os.path.exists(dst):
        shutil.copytree(src, dst, ignore=shutil.ignore_patterns("target", "artifacts", "corpus"))
        for root, _, files in os.walk(dst):
            for f in files:
                if f == "Cargo.toml":
                    fp = os.path.join(root, f)
                    t = open(fp).read().replace('"/repo/', '"' + REPO + '/')
                    open(fp, "w").write(t)
    return dst


def xdrv_bin(backend):
    """Path of the level-X driver for backend 's1' or 's2' (built on demand from /repo)."""
    if backend in _BUILT:
        return _BUILT[backend]
    tgt = os.path.join(WORK, f"tgt-{backend}")
    ok, out = cargo_build(harness_dir("xdrv"), tgt, extra=["--features", backend])
    if not ok:
        # /repo does not compile in this configuration: that is not a verdict on the property.
        raise Inconclusive(f"xdrv[{backend}] failed to build against /repo:\n{out[-3000:]}")
    b = os.path.join(tgt, "release/xdrv")
    _BUILT[backend] = b
    return b


def xan_bin():
    if "xan" in _BUILT:
        return _BUILT["xan"]
    tgt = os.path.join(WORK, "tgt-xan")
    b = os.path.join(tgt, "release/xan")
    ok, out = cargo_build(harness_dir("xan"), tgt, pkgs_to_clean=())
    if not ok:
        raise Inconclusive(f"xan failed to build:\n{out[-3000:]}")
    _BUILT["xan"] = b
    return b


# ---------------------------------------------------------------------------------------------
# batch execution

def _run_shard(binary, reqs, env, timeout):
    """Feed reqs (list of dict) to one driver process; survive a dying process by restarting after
    the request that killed it. Returns list of outcomes (same order)."""
    results = []
    pos = 0
    while pos < len(reqs):
        with tempfile.NamedTemporaryFile("w", suffix=".jsonl", dir=WORK, delete=False) as f:
            for r in reqs[pos:]:
                f.write(json.dumps(r) + "\n")
            inp = f.name
        try:
            with open(inp) as fin:
                p = subprocess.run([binary], stdin=fin, stdout=subprocess.PIPE, stderr=subprocess.PIPE, env=env, timeout=timeout)
        except subprocess.TimeoutExpired:
            os.unlink(inp)
            raise Inconclusive(f"watchdog: driver shard exceeded {timeout}s")
        os.unlink(inp)
        lines = [l for l in p.stdout.decode("utf-8", "replace").split("\n") if l.strip()]
        got = []
        for l in lines:
            try:
                got.append(json.loads(l))
            except json.JSONDecodeError:
                break
        results.extend(got)
        pos += len(got)
        if pos < len(reqs) and (p.returncode != 0 or len(got) < len(reqs) - (pos - len(got))):
            # the process died while handling reqs[pos]
            err = p.stderr.decode("utf-8", "replace")[-400:]
            results.append({"id": reqs[pos].get("id"), "status": "abort", "rc": p.returncode, "msg": err})
            pos += 1
        elif pos < len(reqs):
            raise Inconclusive("driver produced fewer answers than requests without dying")
    return results


def run_x(srcs, backend="s1", reps=0, notext=True, env_extra=None, timeout=1200, nproc=None):
    """Expand every source in `srcs` with the level-X driver; returns outcomes in order."""
    binary = xdrv_bin(backend)
    n = len(srcs)
    if n == 0:
        return []
    nproc = nproc or NCPU
    nshard = max(1, min(nproc, (n + 49) // 50))
    shards = [[] for _ in range(nshard)]
    for i, s in enumerate(srcs):
        shards[i % nshard].append({"id": i, "src": s, "reps": reps, "notext": notext})
    env = dict(os.environ)
    if env_extra:
        env.update(env_extra)
    out = [None] * n
    with ThreadPoolExecutor(max_workers=nshard) as ex:
        for res in ex.map(lambda sh: _run_shard(binary, sh, env, timeout), shards):
            for r in res:
                out[r["id"]] = r
    if any(o is None for o in out):
        raise Inconclusive("missing driver answers")
    return out


def run_xan(texts, timeout=1200):
    binary = xan_bin()
    n = len(texts)
    if n == 0:
        return []
    nshard = max(1, min(NCPU, (n + 99) // 100))
    shards = [[] for _ in range(nshard)]
    for i, t in enumerate(texts):
        shards[i % nshard].append({"id": i, "text": t})
    out = [None] * n
    with ThreadPoolExecutor(max_workers=nshard) as ex:
        for res in ex.map(lambda sh: _run_shard(binary, sh, dict(os.environ), timeout), shards):
            for r in res:
                out[r["id"]] = r
    return out


# ---------------------------------------------------------------------------------------------
# token helpers

def split_items(tokens):
    """Split a canonical token list into top-level items: each item ends with its first top-level
    brace group. Returns list of (header_tokens, body_tokens_including_braces)."""
    items = []
    depth = 0
    start = 0
    body_start = None
    for i, t in enumerate(tokens):
        if t in ("(", "[", "{", "⟦"):
            if t == "{" and depth == 0 and body_start is None:
                # is this brace the impl body?  (attributes use [ ], generics have no top-level braces)
                body_start = i
            depth += 1
        elif t in (")", "]", "}", "⟧"):
            depth -= 1
            if depth == 0 and t == "}" and body_start is not None:
                items.append((tokens[start:body_start], tokens[body_start:i + 1]))
                start = i + 1
                body_start = None
    if start < len(tokens):
        items.append((tokens[start:], []))
    return items


def _strip_attrs(h):
    i = 0
    attrs = []
    while i < len(h) and h[i] == "#":
        j = i + 1
        if j < len(h) and h[j] == "!":
            j += 1
        if j < len(h) and h[j] == "[":
            d = 0
            k = j
            while k < len(h):
                if h[k] == "[":
                    d += 1
                elif h[k] == "]":
                    d -= 1
                    if d == 0:
                        break
                k += 1
            attrs.append(h[i:k + 1])
            i = k + 1
        else:
            break
    return attrs, h[i:]


def header_info(header):
    """Heuristic parse of an impl header token list -> dict(trait, by_ref, counterpart, self_ty, fallible, kind)."""
    attrs, h = _strip_attrs(header)
    info = {"attrs": attrs, "ok": False}
    if not h or h[0] != "impl":
        return info
    i = 1
    if i < len(h) and h[i] == "<":
        d = 0
        while i < len(h):
            if h[i] == "<":
                d += 1
            elif h[i] == ">" and (i == 0 or h[i - 1] not in ("-^", "=^")):
                d -= 1
                if d == 0:
                    i += 1
                    break
            i += 1
    gens = h[1:i]
    # find top-level `for`
    d = 0
    f = None
    for k in range(i, len(h)):
        t = h[k]
        if t == "<":
            d += 1
        elif t == ">" and h[k - 1] not in ("-^", "=^"):
            d -= 1
        elif t in ("(", "[", "{"):
            d += 100
        elif t in (")", "]", "}"):
            d -= 100
        elif t == "for" and d == 0:
            f = k
            break
    if f is None:
        return info
    trait = h[i:f]
    rest = h[f + 1:]
    w = None
    d = 0
    for k, t in enumerate(rest):
        if t == "<":
            d += 1
        elif t == ">" and k > 0 and rest[k - 1] not in ("-^", "=^"):
            d -= 1
        elif t == "where" and d == 0:
            w = k
            break
    self_ty = rest[:w] if w is not None else rest
    where = rest[w:] if w is not None else []
    # trait name = ident just before first '<'
    try:
        lt = trait.index("<")
    except ValueError:
        return info
    name = trait[lt - 1]
    arg = trait[lt + 1:-1]
    is_from = name in ("From", "TryFrom")
    by_ref = (arg[:1] == ["&"]) if is_from else (self_ty[:1] == ["&"])

    def strip_ref(x):
        if x[:1] == ["&"]:
            x = x[1:]
            if x[:1] == ["'"]:
                x = x[2:]
        return x

    cp = strip_ref(arg) if is_from else arg
    st = self_ty if is_from else strip_ref(self_ty)
    fallible = name.startswith("Try")
    base = name[3:] if fallible else name
    kind = {"From": "from", "Into": "into", "IntoExisting": "into_existing"}.get(base, "?")
    kind = kind + ("_ref" if by_ref else "_owned")
    info.update(ok=True, generics=gens, trait=name, trait_path=trait[:lt], arg=arg, by_ref=by_ref, counterpart=cp,
                self_ty=st, where=where, fallible=fallible, kind=kind)
    return info


def detok(tokens):
    """Re-parseable rendering of a canonical token list."""
    out = []
    for t in tokens:
        if t.endswith("^") and len(t) == 2:
            out.append(t[0])
        elif t == "'":
            out.append("'")
        elif t in ("\u27e6", "\u27e7"):
            out.append(" ")
        else:
            out.append(t)
            out.append(" ")
    return "".join(out).strip()


# ---------------------------------------------------------------------------------------------
# known findings

class Finding:
    def __init__(self, state, prop, fid, sig, desc, witness=None, raw=""):
        self.state, self.prop, self.fid, self.sig, self.desc, self.witness, self.raw = state, prop, fid, sig, desc, witness, raw


def load_findings():
    path = os.path.join(VERIF, "KNOWN_FINDINGS.txt")
    res = []
    if os.environ.get("VERIF_IGNORE_FINDINGS"):   # maintenance only (tools/collect_witnesses.py): never set by a registered command
        return res
    if not os.path.exists(path):
        return res
    for line in open(path):
        line = line.rstrip("\n")
        if not line.strip() or line.lstrip().startswith("#"):
            continue
        if line.startswith("open:"):
            body = line[5:].strip()
            head, _, desc = body.partition(" :: ")
            kv = {}
            # property=Cxx id=Fnn witness=path sig=<rest of head>
            parts = head.split(" sig=", 1)
            for tok in parts[0].split():
                if "=" in tok:
                    k, v = tok.split("=", 1)
                    kv[k] = v
            sig = parts[1].strip() if len(parts) > 1 else ""
            res.append(Finding("open", kv.get("property"), kv.get("id"), sig, desc.strip(), kv.get("witness"), line))
        elif line.startswith("fixed:"):
            res.append(Finding("fixed", None, None, None, line[6:].strip(), None, line))
    return res


# ---------------------------------------------------------------------------------------------
# verdicts / evidence

class Check:
    """Bookkeeping for one run of one property's check."""

    def __init__(self, prop, tier, level="exploration"):
        self.prop, self.tier, self.level = prop, tier, level
        self.t0 = time.time()
        self.seed = seed()
        self.evaluations = 0
        self.nontrivial = set()
        self.samples = []
        self.violations = []       # (sig, witness dict)
        self.known_hits = {}       # fid -> count
        self.inconclusive = []
        self.extra = {}
        self.cells = {}
        self.findings = [f for f in load_findings() if f.state == "open" and f.prop == prop]
        self.rule = ""
        self.assumptions = []
        self.floor = 2
        import glob
        for old in glob.glob(os.path.join(OUT, "replays", f"{prop}-{tier}-{self.seed}-*.json")):
            try:
                os.unlink(old)
            except OSError:
                pass

    def count(self, n=1):
        self.evaluations += n

    def cell(self, key, nontrivial=True):
        key = key if isinstance(key, str) else json.dumps(key, sort_keys=True, default=str)
        self.cells[key] = self.cells.get(key, 0) + 1
        if nontrivial:
            self.nontrivial.add(key)

    def sample(self, s, cap=6):
        if len(self.samples) < cap:
            self.samples.append(s)

    def violation(self, sig, witness):
        """Report a failing observation. If its signature is a listed open finding it is counted
        there; otherwise it is a violation."""
        for f in self.findings:
            if f.sig == sig:
                self.known_hits[f.fid] = self.known_hits.get(f.fid, 0) + 1
                return False
        if len(self.violations) < 50:
            self.violations.append((sig, witness))
        else:
            self.violations.append((sig, None))
        return True

    def note_inconclusive(self, what):
        self.inconclusive.append(what)

    def finish(self):
        wall = time.time() - self.t0
        os.makedirs(os.path.join(OUT, "evidence"), exist_ok=True)
        os.makedirs(os.path.join(OUT, "replays"), exist_ok=True)
        replay_paths = []
        seen_sig = set()
        for i, (sig, w) in enumerate(self.violations):
            if w is None or sig in seen_sig:
                continue
            seen_sig.add(sig)
            p = os.path.join(OUT, "replays", f"{self.prop}-{self.tier}-{self.seed}-{len(replay_paths)}.json")
            with open(p, "w") as fh:
                json.dump({"property": self.prop, "tier": self.tier, "seed": self.seed, "signature": sig, "witness": w,
                           "replay": f"./run --replay {p}"}, fh, indent=1, default=str)
            replay_paths.append((sig, p))
        cov = {
            "evaluations": self.evaluations,
            "distinct_nontrivial": len(self.nontrivial),
            "rule": self.rule,
            "samples": self.samples or ["<none>"],
            "cells": dict(sorted(self.cells.items(), key=lambda kv: -kv[1])[:60]),
            "distinct_cells_total": len(self.cells),
            "known_findings_observed": {f.fid: {"signature": f.sig, "hits": self.known_hits.get(f.fid, 0), "what": f.desc} for f in self.findings},
            "inconclusive": self.inconclusive,
            "violation_signatures": sorted({s for s, _ in self.violations})[:40],
        }
        cov.update(self.extra)
        ev = {"property_id": self.prop, "tier": self.tier, "seed": self.seed, "level": self.level, "coverage": cov,
              "assumptions": self.assumptions, "wall_s": round(wall, 2), "violations": len(self.violations)}
        floors_met = self.evaluations >= 1 and len(self.nontrivial) >= self.floor
        with open(os.path.join(OUT, "evidence", f"{self.prop}.json"), "w") as fh:
            json.dump(ev, fh, indent=1, default=str)
        for f in self.findings:
            n = self.known_hits.get(f.fid, 0)
            if n:
                print(f"KNOWN-FINDING: property={self.prop} {f.fid} {f.desc} (observed {n}x; signature {f.sig})")
            else:
                print(f"note: listed finding {f.fid} for {self.prop} was not re-observed in this run")
        if self.violations:
            for sig, p in replay_paths[:10]:
                print(f"VIOLATION property={self.prop} replay={p}")
                print(f"  signature: {sig}")
            print(f"{self.prop} {self.tier}: {len(self.violations)} violating observations, {len(seen_sig)} distinct signatures; "
                  f"{self.evaluations} evaluations, {len(self.nontrivial)} distinct non-trivial cells; {wall:.1f}s")
            return 1
        if not floors_met:
            print(f"INCONCLUSIVE property={self.prop} floor not met: evaluations={self.evaluations} distinct_nontrivial={len(self.nontrivial)}")
            return 2
        inc = f", {len(self.inconclusive)} inconclusive sub-steps" if self.inconclusive else ""
        print(f"{self.prop} {self.tier}: held on {self.evaluations} evaluations, {len(self.nontrivial)} distinct non-trivial cells{inc}; {wall:.1f}s")
        return 0


def inconclusive_exit(prop, tier, why):
    """No verdict (infrastructure). Still leaves a schema-valid evidence file saying so."""
    print(f"INCONCLUSIVE property={prop} {why}")
    return 2


# ---------------------------------------------------------------------------------------------
# outcome comparison helpers for the metamorphic checks

def status_class(o):
    """accept / reject / panic / other"""
    return {"ok": "accept", "err": "reject", "panic": "panic", "abort": "abort"}.get(o["status"], o["status"])


def items_multiset(tokens):
    from collections import Counter
    return Counter(tuple(h) + tuple(b) for h, b in split_items(tokens))


def diff_outcomes(oa, ob, mode="tok"):
    """None when the two outcomes are equivalent for a metamorphic pair; else a short class of difference."""
    ca, cb = status_class(oa), status_class(ob)
    if ca != cb:
        return f"verdict:{ca}/{cb}"
    if ca != "accept":
        return None
    if mode == "tok":
        if oa["tokens"] != ob["tokens"]:
            return "tokens"
    else:
        if items_multiset(oa["tokens"]) != items_multiset(ob["tokens"]):
            return "impl_set"
    return None


def first_token_diff(ta, tb, ctx=8):
    n = min(len(ta), len(tb))
    i = 0
    while i < n and ta[i] == tb[i]:
        i += 1
    return {"at": i, "a": detok(ta[max(0, i - ctx):i + ctx]), "b": detok(tb[max(0, i - ctx):i + ctx])}


def brief(o):
    if o["status"] == "ok":
        return {"status": "ok", "impls": o["tokens"].count("impl"), "tokens": len(o["tokens"])}
    return {k: v for k, v in o.items() if k not in ("tokens", "text", "id")}


# ---------------------------------------------------------------------------------------------
# panic signatures: (message, enclosing function of the panic location). The function is looked up
# from the reported file:line in /repo's sources (stable under inlining and under line shifts).
_SRC_CACHE = {}


def enclosing_fn(loc):
    import re
    try:
        path, line = loc.rsplit(":", 1)
        line = int(line)
    except ValueError:
        return ""
    if not path.startswith(REPO):
        return ""
    if path not in _SRC_CACHE:
        try:
            _SRC_CACHE[path] = open(path).read().split("\n")
        except OSError:
            _SRC_CACHE[path] = []
    src = _SRC_CACHE[path]
    for i in range(min(line, len(src)) - 1, -1, -1):
        m = re.match(r"^(\s*)(?:pub(?:\([a-z]+\))?\s+)?fn\s+(\w+)", src[i])
        if m and len(m.group(1)) <= 4:
            return os.path.basename(path)[:-3] + "::" + m.group(2)
    return ""


def panic_sig(o):
    import re
    msg = re.sub(r"[0-9]{3,}", "N", o.get("msg", ""))[:80]
    fn = enclosing_fn(o.get("loc", "")) or o.get("func", "")
    return f"panic|{msg}|{fn}"
