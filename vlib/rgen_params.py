"""Level-R generator for C08: vars / ..update / return on every trait instruction (README 'Define helper variables',
'Quick return', 'Use struct update syntax'; tests 23-25). User expressions call probes so evaluation order and
evaluate-once are observable events."""
from .model import Instr, Field, Variant, Item, KINDS, FALLIBLE_NAME, TRAIT_SHORT, kinds_of
from .rgen import PRELUDE

HELPERS = '''
pub fn upd_t(v: i32) -> T { T { a: v.wrapping_add(1000), tb: v.wrapping_add(2000), x: v.wrapping_add(3000), y: v.wrapping_add(4000) } }
pub fn upd_s(v: i32) -> S { S { a: v.wrapping_add(1100), b: v.wrapping_add(2200), c: v.wrapping_add(3300), sg: v.wrapping_add(4400) } }
'''


class PCase:
    pass


def gen_case(g, cid):
    r = g.r
    pc = PCase()
    pc.cid = cid
    pc.kind = "struct" if cid % 4 != 3 else "enum"
    if cid % 8 == 5:
        return gen_hinted(g, pc)
    if cid % 8 == 1:
        return gen_nested(g, pc)
    # one trait instruction per chosen name; each with its own params
    names = []
    todo = set(KINDS if pc.kind == "struct" else KINDS[:4])
    shorts = [(k, v) for k, v in TRAIT_SHORT.items() if pc.kind == "struct" or k != "into_existing"]
    r.shuffle(shorts)
    for sh, ks in shorts:
        if set(ks) <= todo and g.chance(0.45):
            names.append(sh)
            todo -= set(ks)
    names += sorted(todo)
    r.shuffle(names)
    pc.min_vars = r.choice([0, 1, 1, 2])
    pc.from_update = pc.kind == "struct" and g.chance(0.4)
    pc.into_update = pc.kind == "struct" and g.chance(0.4)
    pc.instrs = []
    for nm in names:
        nv = r.randint(pc.min_vars, 3)
        ks = kinds_of(nm)
        is_from = all(k.startswith("from") for k in ks)
        is_into = all(not k.startswith("from") for k in ks)
        tail = None
        if g.chance(0.25) and (is_from or is_into):
            tail = "return"
        d = dict(name=nm, nvars=nv, base=g.mark() * 10, tail=tail, attrs=[a for a in ("attribute", "inner_attribute", "impl_attribute") if g.chance(0.25)], ret_id=g.mark(), upd_id=g.mark())
        pc.instrs.append(d)
    pc.ida, pc.idb = g.mark(), g.mark()
    # bare #[parent] sub-family: the Into skeletons switch to the post-init dialect (let mut obj = Default::default(); ..)
    pc.bare = pc.kind == "struct" and cid % 5 == 2
    if pc.bare:
        pc.from_update = pc.into_update = False
        # `return expr` stays allowed on every kind: it replaces the whole body, the post-init statements included
    return pc


def var_params(d):
    vs = []
    for j in range(d["nvars"]):
        pid = d["base"] + j
        if j == 0:
            e = f"crate::rt::probe({pid}, @.a)" if True else ""
        elif j == 1:
            e = f"crate::rt::probe({pid}, v1.wrapping_mul(3))"
        else:
            e = f"crate::rt::probe({pid}, v2.wrapping_sub(v1))"
        vs.append((f"v{j + 1}", e))
    return vs


def last_var(d):
    return f"v{d['nvars']}" if d["nvars"] else "7i32"


def ref_vars(d, a):
    """Rust statements computing the vars from source field expression `a`"""
    st = []
    if d["nvars"] >= 1:
        st.append(f"let v1: i32 = {a};")
    if d["nvars"] >= 2:
        st.append("let v2: i32 = v1.wrapping_mul(3);")
    if d["nvars"] >= 3:
        st.append("let v3: i32 = v2.wrapping_sub(v1);")
    return " ".join(st)


def render_struct(pc, g, fallible):
    r = g.r
    it = Item("struct", "S", shape="named", vis="pub ")
    use_v1 = pc.min_vars >= 1
    v1e = "v1" if use_v1 else "0i32"
    for d in pc.instrs:
        ks = kinds_of(d["name"])
        is_from = all(k.startswith("from") for k in ks)
        is_into_new = all(k in ("owned_into", "ref_into") for k in ks)
        ps = []
        if d["nvars"]:
            ps.append(("vars", var_params(d)))
        for a in d["attrs"]:
            ps.append((a, {"attribute": "inline", "inner_attribute": "allow(unused_variables)", "impl_attribute": "cfg(all())"}[a]))
        r.shuffle(ps)
        if d["tail"] == "return":
            tgt = "mk_s" if is_from else "mk_t"
            e = f"{tgt}(crate::rt::probe({d['ret_id']}, {last_var(d)}))"
            if fallible and not all("existing" in k for k in ks):
                e = f"Ok({e})"
            ps.append(("return", e))
        elif is_from and pc.from_update:
            ps.append(("update", f"upd_s(crate::rt::probe({d['upd_id']}, {last_var(d)}))"))
        elif is_into_new and pc.into_update:
            ps.append(("update", f"upd_t(crate::rt::probe({d['upd_id']}, {last_var(d)}))"))
        d["update"] = ps[-1][0] == "update" if ps else False
        it.attrs.append(Instr(FALLIBLE_NAME[d["name"]] if fallible else d["name"], "trait", ty="T", hint=None, err="super::Er" if fallible else None, params=ps))
    # a shortcut covering from and into kinds cannot carry the update the case needs: fall back to ghosts / defaults for those
    # a #[ghost] without default is only valid when *every* From instruction for the type carries an update (validation checks per type)
    from_ok = pc.from_update and all(d["update"] for d in pc.instrs if any(k.startswith("from") for k in kinds_of(d["name"])))
    into_ok = pc.into_update and all(d["update"] or d["tail"] == "return" for d in pc.instrs if any(k in ("owned_into", "ref_into") for k in kinds_of(d["name"])))
    pc.from_upd_eff, pc.into_upd_eff = from_ok, into_ok
    if not into_ok and not pc.bare:
        it.attrs.append(Instr("ghosts", "ghosts", container=None, entries=[dict(path=None, ident="x", action=f"{v1e}.wrapping_add(7)"), dict(path=None, ident="y", action="9")]))
    it.fields = [
        Field("a", "i32", [Instr("map", "map", container=None, member=None, action=f"crate::rt::probe({pc.ida}, ~)", braced=False)]),
        Field("b", "i32", [Instr("map", "map", container=None, member="tb", action=f"crate::rt::probe({pc.idb}, ~).wrapping_add({v1e})", braced=False)]),
        Field("c", "i32", [Instr("ghost", "ghost", container=None, action=None if from_ok else "33", braced=True)]),
        Field("sg", "i32", [Instr("ghost", "ghost", container=None, action=f"{v1e}.wrapping_add(5)", braced=True)]),
    ]
    if pc.bare:
        it.fields.append(Field("inner", "Inner", [Instr("parent", "parent", container=None, fields=None)]))
    # drop the update params that cannot be used consistently
    for ins, d in zip(it.attrs, pc.instrs):
        ks = kinds_of(d["name"])
        is_from = all(k.startswith("from") for k in ks)
        if d["update"] and ((is_from and not from_ok) or (not is_from and not into_ok)):
            ins.f["params"] = [p for p in ins.f["params"] if p[0] != "update"]
            d["update"] = False
    derive_src = it.render(derive="#[derive(Clone, Debug, PartialEq, o2o::o2o)]")
    if pc.bare:
        inner = ("#[derive(Clone, Debug, PartialEq, Default, o2o::o2o)]\n" + (f"#[try_from_ref(T, super::Er)]\n#[try_into_existing(T, super::Er)]" if fallible else "#[from_ref(T)]\n#[into_existing(T)]")
                 + "\npub struct Inner { pub y: i32 }")
        L = ["use super::*;", "use o2o::traits::*;", "#[derive(Clone, Debug, PartialEq, Default)]\npub struct T { pub a: i32, pub tb: i32, pub x: i32, pub y: i32 }", inner, derive_src,
             "pub fn mk_t(v: i32) -> T { T { a: v, tb: v.wrapping_add(1), x: v.wrapping_add(2), y: v.wrapping_add(3) } }",
             "pub fn mk_s(v: i32) -> S { S { a: v, b: v.wrapping_add(1), c: v.wrapping_add(2), sg: v.wrapping_add(3), inner: Inner { y: v.wrapping_add(4) } } }", ""]
        derive_src = inner + "\n" + derive_src
    else:
        L = ["use super::*;", "use o2o::traits::*;", "#[derive(Clone, Debug, PartialEq)]\npub struct T { pub a: i32, pub tb: i32, pub x: i32, pub y: i32 }", derive_src, HELPERS,
             "pub fn mk_t(v: i32) -> T { T { a: v, tb: v.wrapping_add(1), x: v.wrapping_add(2), y: v.wrapping_add(3) } }",
             "pub fn mk_s(v: i32) -> S { S { a: v, b: v.wrapping_add(1), c: v.wrapping_add(2), sg: v.wrapping_add(3) } }", ""]
    wrap = (lambda e: f"Ok::<_, super::Er>({e})") if fallible else (lambda e: e)
    expect = {}
    for d in pc.instrs:
        for k in kinds_of(d["name"]):
            vids = [d["base"] + j for j in range(d["nvars"])]
            V = last_var(d)
            if k.startswith("from"):
                pre = ref_vars(d, "t.a")
                if d["tail"] == "return":
                    body = f"mk_s({V})"
                    expect[k] = vids + [d["ret_id"]]
                else:
                    c = f"upd_s({V}).c" if d["update"] else "33"
                    body = f"S {{ a: t.a, b: t.tb.wrapping_add({v1e}), c: {c}, sg: {v1e}.wrapping_add(5){', inner: Inner { y: t.y }' if pc.bare else ''} }}"
                    expect[k] = vids + [pc.ida, pc.idb] + ([d["upd_id"]] if d["update"] else [])
                L.append(f"fn ref_{k}(t: &T) -> {'Result<S, super::Er>' if fallible else 'S'} {{ {pre} {wrap(body)} }}")
            else:
                pre = ref_vars(d, "s.a")
                existing = k.endswith("existing")
                if d["tail"] == "return":
                    body = f"mk_t({V})"
                    expect[k] = vids + [d["ret_id"]]
                else:
                    if d["update"]:
                        x, y = f"upd_t({V}).x", f"upd_t({V}).y"
                    elif not into_ok:
                        x, y = f"{v1e}.wrapping_add(7)", "9"
                    else:
                        x, y = "pre.x", "pre.y"      # into_existing without ghosts leaves them untouched
                    if pc.bare:
                        x, y = ("pre.x" if existing else "0"), "s.inner.y"
                    body = f"T {{ a: s.a, tb: s.b.wrapping_add({v1e}), x: {x}, y: {y} }}"
                    expect[k] = vids + [pc.ida, pc.idb] + ([d["upd_id"]] if d["update"] else [])
                L.append(f"fn ref_{k}(s: &S, pre: &T) -> {'Result<T, super::Er>' if fallible else 'T'} {{ {pre} {wrap(body)} }}")
    pc.expect = pc.__dict__.get("expect", {})
    pc.expect["f" if fallible else "i"] = expect
    tag = f"c{pc.cid}{'f' if fallible else 'i'}"
    from .rgen_flat import conv_driver
    D = ["pub fn run(log: &mut crate::rt::Log) {", f"    let mut r = crate::rt::Rng::new({pc.cid + 9500});", "    for d in 0..4usize {",
         "        let t: T = T { a: r.i32(), tb: r.i32(), x: r.i32(), y: r.i32() };", "        let pre: T = T { a: r.i32(), tb: r.i32(), x: r.i32(), y: r.i32() };",
         "        let s: S = S { a: r.i32(), b: r.i32(), c: r.i32(), sg: r.i32()" + (", inner: Inner { y: r.i32() }" if pc.bare else "") + " };"]
    pre = "try_" if fallible else ""
    calls = {
        "from_owned": ("S::try_from(t.clone())" if fallible else "S::from(t.clone())", "ref_from_owned(&t)"),
        "from_ref": ("S::try_from(&t)" if fallible else "S::from(&t)", "ref_from_ref(&t)"),
        "owned_into": ("{ let x: Result<T, super::Er> = s.clone().try_into(); x }" if fallible else "{ let x: T = s.clone().into(); x }", "ref_owned_into(&s, &pre)"),
        "ref_into": ("{ let x: Result<T, super::Er> = (&s).try_into(); x }" if fallible else "{ let x: T = (&s).into(); x }", "ref_ref_into(&s, &pre)"),
        "owned_into_existing": ("{ let mut o = pre.clone(); let x = s.clone().try_into_existing(&mut o); x.map(|_| o) }" if fallible else "{ let mut o = pre.clone(); s.clone().into_existing(&mut o); o }", "ref_owned_into_existing(&s, &pre)"),
        "ref_into_existing": ("{ let mut o = pre.clone(); let x = (&s).try_into_existing(&mut o); x.map(|_| o) }" if fallible else "{ let mut o = pre.clone(); (&s).into_existing(&mut o); o }", "ref_ref_into_existing(&s, &pre)"),
    }
    for k in KINDS:
        if k in expect:
            call, want = calls[k]
            # the reference is evaluated first and its (empty) probe list discarded; the probes logged are those of the generated conversion
            D.append(f'        {{ let want = format!("{{:?}}", {want}); crate::rt::probes_take(); let got = crate::rt::guard(|| {call}); log.ev("{tag}", "{pre}{k}", d, "", &got, &want); }}')
    D += ["    }", "}"]
    return "\n".join(L + D) + "\n", derive_src


def render_enum(pc, g, fallible):
    r = g.r
    it = Item("enum", "S", vis="pub ")
    use_v1 = pc.min_vars >= 1
    v1e = "v1" if use_v1 else "0i32"
    expect = {}
    refs = []
    for d in pc.instrs:
        ks = kinds_of(d["name"])
        is_from = all(k.startswith("from") for k in ks)
        ps = []
        if d["nvars"]:
            vs = []
            for j in range(d["nvars"]):
                pid = d["base"] + j
                e = f"crate::rt::probe({pid}, 11i32)" if j == 0 else (f"crate::rt::probe({pid}, v1.wrapping_mul(3))" if j == 1 else f"crate::rt::probe({pid}, v2.wrapping_sub(v1))")
                vs.append((f"v{j + 1}", e))
            ps.append(("vars", vs))
        for a in d["attrs"]:
            ps.append((a, {"attribute": "inline", "inner_attribute": "allow(unused_variables)", "impl_attribute": "cfg(all())"}[a]))
        r.shuffle(ps)
        if d["tail"] == "return":
            e = ("S::A" if is_from else "T::A") + f"(crate::rt::probe({d['ret_id']}, {last_var(d)}))"
            ps.append(("return", f"Ok({e})" if fallible else e))
        it.attrs.append(Instr(FALLIBLE_NAME[d["name"]] if fallible else d["name"], "trait", ty="T", hint=None, err="super::Er" if fallible else None, params=ps))
        for k in ks:
            vids = [d["base"] + j for j in range(d["nvars"])]
            expect[k] = (vids, d["ret_id"] if d["tail"] == "return" else None)
            pre = ref_vars(d, "11i32")
            res_t = "Result<S, super::Er>" if fallible else "S"
            res_i = "Result<T, super::Er>" if fallible else "T"
            wrap = (lambda e: f"Ok::<_, super::Er>({e})") if fallible else (lambda e: e)
            if k.startswith("from"):
                body = f"S::A({last_var(d)})" if d["tail"] == "return" else f"match t {{ T::A(x) => S::A(x.wrapping_add({v1e})), T::B => S::B }}"
                refs.append(f"fn ref_{k}(t: &T) -> {res_t} {{ {pre} {wrap(body)} }}")
            else:
                body = f"T::A({last_var(d)})" if d["tail"] == "return" else f"match s {{ S::A(x) => T::A(x.wrapping_add({v1e})), S::B => T::B }}"
                refs.append(f"fn ref_{k}(s: &S) -> {res_i} {{ {pre} {wrap(body)} }}")
    fa = [Instr("map_owned", "map", container=None, member=None, action=f"crate::rt::probe({pc.ida}, ~).wrapping_add({v1e})", braced=False),
          Instr("map_ref", "map", container=None, member=None, action=f"crate::rt::probe({pc.ida}, *~).wrapping_add({v1e})", braced=False)]
    it.variants = [Variant("A", "tuple", [Field(None, "i32", fa)]), Variant("B")]
    derive_src = it.render(derive="#[derive(Clone, Debug, PartialEq, o2o::o2o)]")
    L = ["use super::*;", "#[derive(Clone, Debug, PartialEq)]\npub enum T { A(i32), B }", derive_src] + refs
    pc.expect = pc.__dict__.get("expect", {})
    pc.expect["f" if fallible else "i"] = expect
    tag = f"c{pc.cid}{'f' if fallible else 'i'}"
    pre = "try_" if fallible else ""
    D = ["pub fn run(log: &mut crate::rt::Log) {", f"    let mut r = crate::rt::Rng::new({pc.cid + 9700});", "    for d in 0..4usize {",
         "        let t: T = if d % 2 == 0 { T::A(r.i32()) } else { T::B };", "        let s: S = if d % 2 == 0 { S::A(r.i32()) } else { S::B };"]
    calls = {
        "from_owned": ("S::try_from(t.clone())" if fallible else "S::from(t.clone())", "ref_from_owned(&t)", "t"),
        "from_ref": ("S::try_from(&t)" if fallible else "S::from(&t)", "ref_from_ref(&t)", "t"),
        "owned_into": ("{ let x: Result<T, super::Er> = s.clone().try_into(); x }" if fallible else "{ let x: T = s.clone().into(); x }", "ref_owned_into(&s)", "s"),
        "ref_into": ("{ let x: Result<T, super::Er> = (&s).try_into(); x }" if fallible else "{ let x: T = (&s).into(); x }", "ref_ref_into(&s)", "s"),
    }
    for k in KINDS[:4]:
        if k in expect:
            call, want, src = calls[k]
            D.append(f'        {{ let want = format!("{{:?}}", {want}); crate::rt::probes_take(); let got = crate::rt::guard(|| {call}); log.ev("{tag}", "{pre}{k}", d, &format!("{{:?}}", {src}), &got, &want); }}')
    D += ["    }", "}"]
    return "\n".join(L + D) + "\n", derive_src


# ---------------------------------------------------------------------------------------------------------------
# hinted sub-family: params on trait instructions whose counterpart has the other form
#   A: struct with named fields, tuple counterpart (`TA as ()` or a nameless tuple type): From with vars + `..update` supplying a bare #[ghost] field
#   B: tuple struct, named counterpart (`TB as {}`): every instruction has `return`, so no member instruction names a counterpart field

def gen_hinted(g, pc):
    r = g.r
    pc.kind = "hinted"
    pc.a_ty = r.choice(["TA as ()", "(i32, i32)"])
    pc.a_from = r.choice([["from"], ["from_owned", "from_ref"]])
    pc.a_nv = r.randint(0, 2)
    pc.base = g.mark() * 10
    pc.ida, pc.upd_id = g.mark(), g.mark()
    pc.b_names = []
    todo = set(KINDS)
    shorts = list(TRAIT_SHORT.items())
    r.shuffle(shorts)
    for sh, ks in shorts:
        one_way = all(k.startswith("from") for k in ks) or all(not k.startswith("from") for k in ks)
        if set(ks) <= todo and one_way and g.chance(0.5):
            pc.b_names.append(sh)
            todo -= set(ks)
    pc.b_names += sorted(todo)
    r.shuffle(pc.b_names)
    pc.b_ids = {nm: g.mark() for nm in pc.b_names}
    pc.instrs = []
    return pc


def render_hinted(pc, g, fallible):
    err = "super::Er" if fallible else None
    fn = (lambda n: FALLIBLE_NAME[n]) if fallible else (lambda n: n)
    d = dict(nvars=pc.a_nv, base=pc.base)
    vs = []
    for j in range(pc.a_nv):
        vs.append((f"v{j + 1}", f"crate::rt::probe({pc.base + j}, @.0)" if j == 0 else f"crate::rt::probe({pc.base + j}, v1.wrapping_mul(3))"))
    V = last_var(d)
    sa = Item("struct", "SA", shape="named", vis="pub ")
    for nm in pc.a_from:
        ps = ([("vars", vs)] if vs else []) + [("update", f"upd_sa(crate::rt::probe({pc.upd_id}, {V}))")]
        sa.attrs.append(Instr(fn(nm), "trait", ty=pc.a_ty.split(" as ")[0], hint="()" if " as " in pc.a_ty else None, err=err, params=ps))
    sa.fields = [Field("a", "i32", [Instr("from", "map", container=None, member=0, action=f"crate::rt::probe({pc.ida}, ~)", braced=False)]),
                 Field("b", "i32", [Instr("from", "map", container=None, member=1, action=None)]),
                 Field("c", "i32", [Instr("ghost", "ghost", container=None, action=None)])]
    sb = Item("struct", "SB", shape="tuple", vis="pub ")
    expect = {}
    refs = []
    wrap = (lambda e: f"Ok::<_, super::Er>({e})") if fallible else (lambda e: e)
    for nm in pc.b_names:
        ks = kinds_of(nm)
        is_from = all(k.startswith("from") for k in ks)
        rid = pc.b_ids[nm]
        if is_from:
            e = f"SB(crate::rt::probe({rid}, @.x), {rid % 50})"
        else:
            e = f"TB {{ x: crate::rt::probe({rid}, @.0), y: {rid % 50} }}"
        if fallible and not all("existing" in k for k in ks):
            e = f"Ok({e})"
        sb.attrs.append(Instr(fn(nm), "trait", ty="TB", hint="{}", err=err, params=[("return", e)]))
        for k in ks:
            expect["B:" + k] = [rid]
            if is_from:
                refs.append(f"fn refb_{k}(t: &TB) -> {'Result<SB, super::Er>' if fallible else 'SB'} {{ {wrap(f'SB(t.x, {rid % 50})')} }}")
            else:
                refs.append(f"fn refb_{k}(s: &SB) -> {'Result<TB, super::Er>' if fallible else 'TB'} {{ {wrap(f'TB {{ x: s.0, y: {rid % 50} }}')} }}")
    sb.fields = [Field(None, "i32"), Field(None, "i32")]
    da = sa.render(derive="#[derive(Clone, Debug, PartialEq, o2o::o2o)]")
    db = sb.render(derive="#[derive(Clone, Debug, PartialEq, o2o::o2o)]")
    L = ["use super::*;", "use o2o::traits::*;", "#[derive(Clone, Debug, PartialEq)]\npub struct TA(pub i32, pub i32);", "#[derive(Clone, Debug, PartialEq)]\npub struct TB { pub x: i32, pub y: i32 }",
         "pub fn upd_sa(v: i32) -> SA { SA { a: v.wrapping_add(1100), b: v.wrapping_add(2200), c: v.wrapping_add(3300) } }", da, db] + refs
    pre_a = ref_vars(d, "t0")
    body_a = f"SA {{ a: t0, b: t1, c: upd_sa({V}).c }}"
    L.append(f"fn refa(t0: i32, t1: i32) -> {'Result<SA, super::Er>' if fallible else 'SA'} {{ {pre_a} {wrap(body_a)} }}")
    vids = [pc.base + j for j in range(pc.a_nv)]
    expect["A:from_owned"] = expect["A:from_ref"] = vids + [pc.ida, pc.upd_id]
    pc.expect = pc.__dict__.get("expect", {})
    pc.expect["f" if fallible else "i"] = expect
    tag = f"c{pc.cid}{'f' if fallible else 'i'}"
    pre = "try_" if fallible else ""
    mk = "TA(t0, t1)" if " as " in pc.a_ty else "(t0, t1)"
    D = ["pub fn run(log: &mut crate::rt::Log) {", f"    let mut r = crate::rt::Rng::new({pc.cid + 9900});", "    for d in 0..4usize {",
         "        let (t0, t1) = (r.i32(), r.i32());", f"        let ta = {mk};", "        let tb = TB { x: r.i32(), y: r.i32() };", "        let pre = TB { x: r.i32(), y: r.i32() };", "        let sb = SB(r.i32(), r.i32());"]
    calls = {
        "A:from_owned": ("SA::try_from(ta.clone())" if fallible else "SA::from(ta.clone())", "refa(t0, t1)"),
        "A:from_ref": ("SA::try_from(&ta)" if fallible else "SA::from(&ta)", "refa(t0, t1)"),
        "B:from_owned": ("SB::try_from(tb.clone())" if fallible else "SB::from(tb.clone())", "refb_from_owned(&tb)"),
        "B:from_ref": ("SB::try_from(&tb)" if fallible else "SB::from(&tb)", "refb_from_ref(&tb)"),
        "B:owned_into": ("{ let x: Result<TB, super::Er> = sb.clone().try_into(); x }" if fallible else "{ let x: TB = sb.clone().into(); x }", "refb_owned_into(&sb)"),
        "B:ref_into": ("{ let x: Result<TB, super::Er> = (&sb).try_into(); x }" if fallible else "{ let x: TB = (&sb).into(); x }", "refb_ref_into(&sb)"),
        "B:owned_into_existing": ("{ let mut o = pre.clone(); let x = sb.clone().try_into_existing(&mut o); x.map(|_| o) }" if fallible else "{ let mut o = pre.clone(); sb.clone().into_existing(&mut o); o }", "refb_owned_into_existing(&sb)"),
        "B:ref_into_existing": ("{ let mut o = pre.clone(); let x = (&sb).try_into_existing(&mut o); x.map(|_| o) }" if fallible else "{ let mut o = pre.clone(); (&sb).into_existing(&mut o); o }", "refb_ref_into_existing(&sb)"),
    }
    for k, (call, want) in calls.items():
        if k in expect:
            D.append(f'        {{ let want = format!("{{:?}}", {want}); crate::rt::probes_take(); let got = crate::rt::guard(|| {call}); log.ev("{tag}", "{pre}{k}", d, "", &got, &want); }}')
    D += ["    }", "}"]
    return "\n".join(L + D) + "\n", da + "\n" + db


# ---------------------------------------------------------------------------------------------------------------
# nested sub-family: `..update` together with nested destinations
#   N: flat struct gathered into nested structs through #[child(..)] (Into kinds): every nested literal is closed by the update expression, so the
#      fields of the nested structs that no member provides come from it
#   P: struct with a member built through a parameterised #[parent(..)] (From kinds): the same for the value that is built for the member
# The update expression is `mk()` (generic over a trait every involved type implements with distinctive constants), so it fits at every level.

def gen_nested(g, pc):
    r = g.r
    pc.kind = "nested"
    pc.n_names = r.choice([["into"], ["owned_into", "ref_into"], ["owned_into"], ["ref_into"]])
    pc.p_names = r.choice([["from"], ["from_owned", "from_ref"], ["from_ref"]])
    pc.depth = r.choice([1, 2, 2])
    pc.extra = {lvl: g.chance(0.7) for lvl in ("top", "v", "m")}
    if not any(pc.extra.values()):
        pc.extra["m" if pc.depth == 2 else "v"] = True
    pc.ks = {nm: g.mark() % 90 + 5 for nm in ("top", "v", "m", "sd", "pm")}
    pc.upd = r.choice(["mk()", "Mk::mk()", "{ mk() }"])
    pc.instrs = []
    return pc


def render_nested(pc, g, fallible):
    err = "super::Er" if fallible else None
    fn = (lambda n: FALLIBLE_NAME[n]) if fallible else (lambda n: n)
    wrap = (lambda e: f"Ok::<_, super::Er>({e})") if fallible else (lambda e: e)
    ex, ks = pc.extra, pc.ks
    two = pc.depth == 2
    L = ["use super::*;", "use o2o::traits::*;", "pub trait Mk { fn mk() -> Self; }", "pub fn mk<T: Mk>() -> T { T::mk() }"]
    m_f = "pub br: i32," + (" pub w: i32," if ex["m"] else "")
    v_f = "pub s: i32," + (" pub m: M," if two else "") + (" pub vin: i32," if ex["v"] else "")
    t_f = "pub d: i32, pub v: V," + (" pub mil: i32," if ex["top"] else "")
    L.append(f"#[derive(Clone, Debug, PartialEq)]\npub struct M {{ {m_f} }}")
    L.append(f"#[derive(Clone, Debug, PartialEq)]\npub struct V {{ {v_f} }}")
    L.append(f"#[derive(Clone, Debug, PartialEq)]\npub struct TC {{ {t_f} }}")
    L.append(f"impl Mk for M {{ fn mk() -> M {{ M {{ br: -1,{' w: ' + str(ks['m']) + ',' if ex['m'] else ''} }} }} }}")
    L.append(f"impl Mk for V {{ fn mk() -> V {{ V {{ s: -2,{' m: mk(),' if two else ''}{' vin: ' + str(ks['v']) + ',' if ex['v'] else ''} }} }} }}")
    L.append(f"impl Mk for TC {{ fn mk() -> TC {{ TC {{ d: -3, v: mk(),{' mil: ' + str(ks['top']) + ',' if ex['top'] else ''} }} }} }}")
    sc = Item("struct", "SC", shape="named", vis="pub ")
    for nm in pc.n_names:
        sc.attrs.append(Instr(fn(nm), "trait", ty="TC", hint=None, err=err, params=[("update", pc.upd)]))
    sc.attrs.append(Instr("child_parents", "child_parents", container=None, entries=[dict(path="v", ty="V", hint=None)] + ([dict(path="v.m", ty="M", hint=None)] if two else [])))
    sc.fields = [Field("d", "i32"), Field("s", "i32", [Instr("child", "child", container=None, path="v")])]
    if two:
        sc.fields.append(Field("br", "i32", [Instr("child", "child", container=None, path="v.m")]))
    # P: member built through a parameterised parent
    L.append("#[derive(Clone, Debug, PartialEq)]\npub struct PM { pub br: i32, pub y: i32, pub w: i32 }")
    L.append("#[derive(Clone, Debug, PartialEq)]\npub struct FC { pub br: i32, pub y: i32, pub d: i32 }")
    L.append(f"impl Mk for PM {{ fn mk() -> PM {{ PM {{ br: -4, y: -5, w: {ks['pm']} }} }} }}")
    L.append(f"impl Mk for SD {{ fn mk() -> SD {{ SD {{ d: -6, m: mk(), c: {ks['sd']} }} }} }}")
    sd = Item("struct", "SD", shape="named", vis="pub ")
    for nm in pc.p_names:
        sd.attrs.append(Instr(fn(nm), "trait", ty="FC", hint=None, err=err, params=[("update", pc.upd)]))
    sd.fields = [Field("d", "i32"), Field("m", "PM", [Instr("parent", "parent", container=None, fields="br, y")]), Field("c", "i32", [Instr("ghost", "ghost", container=None, action=None)])]
    dn = sc.render(derive="#[derive(Clone, Debug, PartialEq, o2o::o2o)]")
    dp = sd.render(derive="#[derive(Clone, Debug, PartialEq, o2o::o2o)]")
    L += [dn, dp]
    mv = "M { br: s.br," + (f" w: {ks['m']}," if ex["m"] else "") + " }"
    vv = "V { s: s.s," + (f" m: {mv}," if two else "") + (f" vin: {ks['v']}," if ex["v"] else "") + " }"
    tv = f"TC {{ d: s.d, v: {vv}," + (f" mil: {ks['top']}," if ex["top"] else "") + " }"
    L.append(f"fn refn(s: &SC) -> {'Result<TC, super::Er>' if fallible else 'TC'} {{ {wrap(tv)} }}")
    pv = f"SD {{ d: t.d, m: PM {{ br: t.br, y: t.y, w: {ks['pm']} }}, c: {ks['sd']} }}"
    L.append(f"fn refp(t: &FC) -> {'Result<SD, super::Er>' if fallible else 'SD'} {{ {wrap(pv)} }}")
    expect = {}
    for nm in pc.n_names:
        for k in kinds_of(nm):
            expect["N:" + k] = []
    for nm in pc.p_names:
        for k in kinds_of(nm):
            expect["P:" + k] = []
    pc.expect = pc.__dict__.get("expect", {})
    pc.expect["f" if fallible else "i"] = expect
    tag = f"c{pc.cid}{'f' if fallible else 'i'}"
    pre = "try_" if fallible else ""
    D = ["pub fn run(log: &mut crate::rt::Log) {", f"    let mut r = crate::rt::Rng::new({pc.cid + 9950});", "    for d in 0..4usize {",
         "        let sc = SC { d: r.i32(), s: r.i32()," + (" br: r.i32()," if two else "") + " };", "        let fc = FC { br: r.i32(), y: r.i32(), d: r.i32() };"]
    calls = {
        "N:owned_into": ("{ let x: Result<TC, super::Er> = sc.clone().try_into(); x }" if fallible else "{ let x: TC = sc.clone().into(); x }", "refn(&sc)"),
        "N:ref_into": ("{ let x: Result<TC, super::Er> = (&sc).try_into(); x }" if fallible else "{ let x: TC = (&sc).into(); x }", "refn(&sc)"),
        "P:from_owned": ("SD::try_from(fc.clone())" if fallible else "SD::from(fc.clone())", "refp(&fc)"),
        "P:from_ref": ("SD::try_from(&fc)" if fallible else "SD::from(&fc)", "refp(&fc)"),
    }
    for k, (call, want) in calls.items():
        if k in expect:
            D.append(f'        {{ let want = format!("{{:?}}", {want}); crate::rt::probes_take(); let got = crate::rt::guard(|| {call}); log.ev("{tag}", "{pre}{k}", d, "", &got, &want); }}')
    D += ["    }", "}"]
    return "\n".join(L + D) + "\n", dn + "\n" + dp


def render_case(pc, g):
    rm = render_struct if pc.kind == "struct" else render_hinted if pc.kind == "hinted" else render_nested if pc.kind == "nested" else render_enum
    ci, di = rm(pc, g, False)
    cf, df = rm(pc, g, True)
    code = PRELUDE + "pub mod inf {\n" + ci + "}\npub mod fal {\n" + cf + "}\npub fn run(log: &mut crate::rt::Log) { inf::run(log); fal::run(log); }\n"
    return code, di, df
