"""Mode-equivalence audit (DESIGN §2.6): the level-X checks observe `derive` in proc_macro2's fallback mode; this step
compares, for a sample of compilable programs, the expansion rustc itself performs through the real proc-macro bridge
(`cargo +nightly rustc -- -Zunpretty=expanded`) with what the level-X driver observed for the same derive input.
A difference is reported as *inconclusive for the X-level conclusions*, never as a property violation."""
import os
import re
import shutil
import subprocess
from . import common, rgen, rgen_flat, rt_probe


def norm(text):
    t = re.sub(r"\s+", "", text)
    t = re.sub(r",([)}\]])", r"\1", t)     # rustc's pretty-printer drops trailing commas
    return t


def audit(ck, g, n=40):
    d = os.path.join(common.WORK, "modeeq")
    shutil.rmtree(d, ignore_errors=True)
    os.makedirs(os.path.join(d, "src"))
    with open(os.path.join(d, "Cargo.toml"), "w") as f:
        f.write(f'[package]\nname = "modeeq"\nversion = "0.0.0"\nedition = "2021"\n\n[dependencies]\no2o = {{ path = "{common.REPO}" }}\n\n[workspace]\n')
    shutil.copy(os.path.join(common.REPO, "Cargo.lock"), os.path.join(d, "Cargo.lock"))
    lib = ["#![allow(dead_code, unused_variables, unused_imports, unused_mut, non_snake_case, unused_parens, unused_braces)]"]
    inputs = {}
    for i in range(n):
        if i % 3 == 2:
            fc = rgen_flat.gen_case(g, i, dict(family=g.pick(["child", "parent"])))
            code, di, df = rgen_flat.render_case(fc, g, 1)
            body = code
            # keep type definitions and the derive input only: cut the driver / reference functions away
            mods = {}
            for modname, src in (("inf", di),):
                mods[modname] = src
            tdefs = re.findall(r"(#\[derive\(Clone, Debug, PartialEq, Default\)\]\npub struct \w+(?: \{[^}]*\}|\([^)]*\);))", code.split("pub mod fal")[0])
            lib.append(f"pub mod c{i} {{ pub mod inf {{\nuse o2o::traits::*;\n" + "\n".join(tdefs) + "\n" + di + "\n}}")
            inputs[f"c{i}::inf"] = di
        else:
            sc = rgen.gen_struct_case(g, i, dict(leaves=rt_probe.NOSTD_LEAVES))
            rgen.render_module(sc, g, False, 1)
            if "positional_permuted" in sc.flags:
                continue
            code, di, _ = rgen.render_module(sc, g, False, 1)
            lib.append(f"pub mod c{i} {{ pub mod inf {{\nuse o2o::traits::*;\n{rgen.t_type_def(sc)}\n{di}\n}}}}")
            inputs[f"c{i}::inf"] = di
    with open(os.path.join(d, "src/lib.rs"), "w") as f:
        f.write("\n".join(lib) + "\n")
    tgt = os.path.join(common.WORK, "tgt-modeeq")
    try:
        p = subprocess.run(["cargo", "+nightly", "rustc", "--offline", "--target-dir", tgt, "--", "-Zunpretty=expanded"], cwd=d, env=common.ENV, stdout=subprocess.PIPE, stderr=subprocess.PIPE, timeout=1800)
    except subprocess.TimeoutExpired:
        ck.note_inconclusive("mode-equivalence audit: rustc timed out")
        return
    if p.returncode != 0:
        ck.note_inconclusive("mode-equivalence audit: rustc failed: " + p.stderr.decode("utf-8", "replace")[-300:])
        return
    rep = common.run_xan([p.stdout.decode("utf-8", "replace")])[0]
    if rep.get("parse") != "ok":
        ck.note_inconclusive("mode-equivalence audit: expanded crate did not re-parse: " + str(rep.get("msg")))
        return
    by_mod = {}
    for it in rep["items"]:
        if it["kind"] == "impl" and it.get("trait_name") in ("From", "TryFrom", "Into", "TryInto", "IntoExisting", "TryIntoExisting") and not any("automatically_derived" in a["meta"] for a in it["attrs"]):
            by_mod.setdefault(it["mod"], []).append(norm(it["text"]))
    # what the level-X driver observes for the same inputs (the derive line itself is not part of a derive macro's input)
    keys = sorted(inputs)
    srcs = [re.sub(r"^#\[derive\([^\n]*\)\]\n", "", inputs[k]) for k in keys]
    outs = common.run_x(srcs, "s1", notext=False)
    texts = [o.get("text", "") if o["status"] == "ok" else "" for o in outs]
    xr = common.run_xan(texts)
    compared = equal = 0
    diffs = []
    for k, o, r in zip(keys, outs, xr):
        if o["status"] != "ok" or r.get("parse") != "ok":
            continue
        mine = [norm(it["text"]) for it in r["items"] if it["kind"] == "impl"]
        theirs = by_mod.get(k, [])
        compared += 1
        if mine == theirs:
            equal += 1
        else:
            diffs.append(dict(case=k, input=inputs[k], fallback_mode=mine[:2], rustc_bridge=theirs[:2]))
    ck.extra["mode_equivalence"] = {"compared": compared, "equal": equal, "differences": diffs[:3]}
    if compared and equal != compared:
        ck.note_inconclusive(f"mode-equivalence audit: {compared - equal} of {compared} expansions differ between fallback mode and rustc's bridge (X-level conclusions may not transfer)")
    shutil.rmtree(d, ignore_errors=True)
