"""Level-R harness (DESIGN §2.3): generated programs are compiled with the *real* proc-macro by the real rustc,
run, and append one event per conversion call to an event log that is checked offline.

A batch = one scratch crate under work/rt-<name>/ with one module per case (src/cases/c<N>.rs). rustc errors are
attributed to case files through --message-format=json; a rejected case is an observation in its own right, it is
stubbed out and the crate rebuilt (<= 4 rounds).
"""
import json
import os
import re
import shutil
import subprocess
from concurrent.futures import ThreadPoolExecutor
from . import common

RT_RS = r'''
#![allow(dead_code, unused_variables, unused_imports, unused_mut, non_snake_case, non_camel_case_types, unreachable_patterns, unused_parens, clippy::all)]
use std::cell::RefCell;
use std::io::Write;

pub struct Log { pub out: std::io::BufWriter<std::fs::File> }

fn esc(s: &str) -> String {
    let mut o = String::with_capacity(s.len() + 2);
    for c in s.chars() {
        match c {
            '"' => o.push_str("\\\""), '\\' => o.push_str("\\\\"), '\n' => o.push_str("\\n"), '\r' => o.push_str("\\r"), '\t' => o.push_str("\\t"),
            c if (c as u32) < 0x20 => o.push_str(&format!("\\u{:04x}", c as u32)),
            c => o.push(c),
        }
    }
    o
}

thread_local! { pub static PROBES: RefCell<Vec<(u32, i64)>> = RefCell::new(Vec::new()); }

pub fn probe<T: Copy + TryInto<i64>>(id: u32, v: T) -> T {
    let x: i64 = v.try_into().unwrap_or(-1);
    PROBES.with(|p| p.borrow_mut().push((id, x)));
    v
}
pub fn probe_mark(id: u32) { PROBES.with(|p| p.borrow_mut().push((id, 0))); }
pub fn probes_take() -> Vec<(u32, i64)> { PROBES.with(|p| std::mem::take(&mut *p.borrow_mut())) }

impl Log {
    pub fn ev(&mut self, case: &str, conv: &str, draw: usize, src: &str, got: &str, want: &str) {
        let pr = probes_take();
        let prs: Vec<String> = pr.iter().map(|(a, b)| format!("[{},{}]", a, b)).collect();
        writeln!(self.out, "{{\"case\":\"{}\",\"conv\":\"{}\",\"draw\":{},\"src\":\"{}\",\"got\":\"{}\",\"want\":\"{}\",\"probes\":[{}]}}",
            esc(case), esc(conv), draw, esc(src), esc(got), esc(want), prs.join(",")).unwrap();
    }
    pub fn note(&mut self, case: &str, key: &str, val: &str) {
        writeln!(self.out, "{{\"case\":\"{}\",\"note\":\"{}\",\"val\":\"{}\"}}", esc(case), esc(key), esc(val)).unwrap();
    }
}

/// run a conversion, turning a panic inside it into an observable value
pub fn guard<R: std::fmt::Debug>(f: impl FnOnce() -> R) -> String {
    match std::panic::catch_unwind(std::panic::AssertUnwindSafe(f)) {
        Ok(r) => format!("{:?}", r),
        Err(e) => {
            let m = if let Some(s) = e.downcast_ref::<&str>() { s.to_string() } else if let Some(s) = e.downcast_ref::<String>() { s.clone() } else { "?".into() };
            format!("PANIC({})", m)
        }
    }
}

pub struct Rng(pub u64);
impl Rng {
    pub fn new(seed: u64) -> Rng { Rng(seed.wrapping_mul(0x9E3779B97F4A7C15) | 1) }
    pub fn next(&mut self) -> u64 { let mut x = self.0; x ^= x << 13; x ^= x >> 7; x ^= x << 17; self.0 = x; x.wrapping_mul(0x2545F4914F6CDD1D) }
    pub fn i8(&mut self) -> i8 { self.next() as i8 }
    pub fn i16(&mut self) -> i16 { self.next() as i16 }
    pub fn i32(&mut self) -> i32 { self.next() as i32 }
    pub fn i64(&mut self) -> i64 { self.next() as i64 }
    pub fn u8(&mut self) -> u8 { self.next() as u8 }
    pub fn u16(&mut self) -> u16 { self.next() as u16 }
    pub fn u32(&mut self) -> u32 { self.next() as u32 }
    pub fn u64(&mut self) -> u64 { self.next() }
    pub fn bool(&mut self) -> bool { self.next() & 1 == 1 }
    pub fn char(&mut self) -> char { (b'a' + (self.next() % 26) as u8) as char }
    pub fn string(&mut self) -> String { format!("s{}", self.next() % 100000) }
    pub fn below(&mut self, n: u64) -> u64 { self.next() % n }
}

/// impl-presence probes: an inherent const (available only under the trait bound) shadows the blanket trait const
pub trait NotImpl { const IMPLS: bool = false; }
macro_rules! presence_probe {
    ($name:ident, $($bound:tt)*) => {
        pub struct $name<A, B>(pub std::marker::PhantomData<A>, pub std::marker::PhantomData<B>);
        impl<A, B> NotImpl for $name<A, B> {}
        impl<A: $($bound)*<B>, B> $name<A, B> { pub const IMPLS: bool = true; }
    };
}
presence_probe!(PFrom, ::core::convert::From);
presence_probe!(PInto, ::core::convert::Into);
presence_probe!(PTryFrom, ::core::convert::TryFrom);
presence_probe!(PTryInto, ::core::convert::TryInto);
presence_probe!(PIntoExisting, o2o::traits::IntoExisting);
presence_probe!(PTryIntoExisting, o2o::traits::TryIntoExisting);
pub fn type_id_of<T: 'static>() -> String { format!("{:?}", std::any::TypeId::of::<T>()) }
'''

MAIN_HEAD = '''#![allow(dead_code, unused_variables, unused_imports, unused_mut, non_snake_case, non_camel_case_types, unreachable_patterns, unused_parens, unused_braces, clippy::all)]
pub mod rt;
pub mod cases;
fn main() {
    std::panic::set_hook(Box::new(|_| {}));
    let path = std::env::args().nth(1).expect("log path");
    let mut log = rt::Log { out: std::io::BufWriter::new(std::fs::File::create(path).unwrap()) };
'''


class Case:
    def __init__(self, cid, code, meta=None, input_text=""):
        self.cid = cid          # unique int
        self.code = code        # Rust source of the module body; must define `pub fn run(log: &mut crate::rt::Log)`
        self.meta = meta or {}
        self.input_text = input_text
        self.rejected = None    # list of rustc diagnostics when the compiler rejected it


def _write_crate(d, cases, features, no_std_dep=False):
    os.makedirs(os.path.join(d, "src/cases"), exist_ok=True)
    feat = "" if features == "syn1" else ', default-features = false, features = ["syn2"]'
    with open(os.path.join(d, "Cargo.toml"), "w") as f:
        f.write(f'[package]\nname = "rtcase"\nversion = "0.0.0"\nedition = "2021"\npublish = false\n\n[dependencies]\no2o = {{ path = "{common.REPO}"{feat} }}\n\n'
                '[profile.dev]\nopt-level = 0\ndebug = false\nincremental = false\n\n[workspace]\n')
    lock = os.path.join(common.REPO, "Cargo.lock")
    if os.path.exists(lock):
        shutil.copy(lock, os.path.join(d, "Cargo.lock"))
    with open(os.path.join(d, "src/rt.rs"), "w") as f:
        f.write(RT_RS)
    with open(os.path.join(d, "src/cases/mod.rs"), "w") as f:
        for c in cases:
            f.write(f"pub mod c{c.cid};\n")
    for c in cases:
        with open(os.path.join(d, f"src/cases/c{c.cid}.rs"), "w") as f:
            f.write("#![allow(dead_code, unused_variables, unused_imports, unused_mut, non_snake_case, non_camel_case_types, unreachable_patterns, unused_parens, unused_braces)]\n" + c.code)
    with open(os.path.join(d, "src/main.rs"), "w") as f:
        f.write(MAIN_HEAD)
        for c in cases:
            f.write(f"    cases::c{c.cid}::run(&mut log);\n")
        f.write("}\n")


STUB = "pub fn run(_log: &mut crate::rt::Log) {}\n"


def _build(d, tgt, timeout=3000):
    cmd = ["cargo", "build", "--offline", "--message-format=json", "--target-dir", tgt]
    try:
        p = subprocess.run(cmd, cwd=d, env=common.ENV, stdout=subprocess.PIPE, stderr=subprocess.PIPE, timeout=timeout)
    except subprocess.TimeoutExpired:
        raise common.Inconclusive("watchdog: rustc build of generated crate timed out")
    errs = {}
    unattributed = []
    exe = None
    for line in p.stdout.decode("utf-8", "replace").split("\n"):
        if not line.startswith("{"):
            continue
        try:
            m = json.loads(line)
        except json.JSONDecodeError:
            continue
        if m.get("reason") == "compiler-artifact" and m.get("executable") and m.get("target", {}).get("name") == "rtcase":
            exe = m["executable"]
        if m.get("reason") != "compiler-message":
            continue
        msg = m["message"]
        if msg.get("level") != "error":
            continue
        # attribute to a case file: primary span, or expansion chain
        files = []

        def walk(sp):
            files.append(sp.get("file_name", ""))
            if sp.get("expansion"):
                walk(sp["expansion"]["span"])
        for sp in msg.get("spans", []):
            if sp.get("is_primary"):
                walk(sp)
        for sp in msg.get("spans", []):
            walk(sp)
        cid = None
        for fn in files:
            mm = re.search(r"src/cases/c(\d+)\.rs", fn)
            if mm:
                cid = int(mm.group(1))
                break
        text = msg.get("message", "")
        if text.startswith("aborting due to") or text.startswith("could not compile"):
            continue
        rec = {"code": (msg.get("code") or {}).get("code"), "message": text, "rendered": (msg.get("rendered") or "")[:1500]}
        if cid is None:
            unattributed.append(rec)
        else:
            errs.setdefault(cid, []).append(rec)
    return p.returncode, errs, unattributed, exe, p.stderr.decode("utf-8", "replace")[-2000:]


def run_batch(name, cases, features="syn1", rounds=4, tgt=None):
    """Build + run one crate. Returns (events: list of dict, rejected: list of Case with .rejected set)."""
    d = os.path.join(common.WORK, f"rt-{name}")
    if os.path.exists(d):
        shutil.rmtree(d)
    tgt = tgt or os.path.join(common.WORK, f"tgt-rt-{features}")
    os.makedirs(tgt, exist_ok=True)
    _write_crate(d, cases, features)
    rejected = []
    by_id = {c.cid: c for c in cases}
    exe = None
    for rnd in range(rounds):
        rc, errs, unattr, exe, stderr = _build(d, tgt)
        if rc == 0:
            break
        if not errs:
            raise common.Inconclusive(f"generated crate failed to build for a reason not attributable to a case: {unattr[:2]} {stderr[-600:]}")
        for cid, recs in errs.items():
            c = by_id.get(cid)
            if c is None or c.rejected is not None:
                continue
            c.rejected = recs
            rejected.append(c)
            with open(os.path.join(d, f"src/cases/c{cid}.rs"), "w") as f:
                f.write(STUB)
    else:
        raise common.Inconclusive("generated crate still failing after stubbing rejected cases")
    logp = os.path.join(d, "events.jsonl")
    try:
        p = subprocess.run([exe, logp], cwd=d, stdout=subprocess.PIPE, stderr=subprocess.PIPE, timeout=1200)
    except subprocess.TimeoutExpired:
        raise common.Inconclusive("watchdog: generated program did not finish")
    events = []
    if os.path.exists(logp):
        with open(logp) as f:
            for line in f:
                try:
                    events.append(json.loads(line))
                except json.JSONDecodeError:
                    pass
    if p.returncode != 0:
        # the process died (abort / stack overflow): the case after the last logged one is the culprit
        last = events[-1]["case"] if events else None
        events.append({"case": "?", "fatal": True, "rc": p.returncode, "after": last, "stderr": p.stderr.decode("utf-8", "replace")[-500:]})
    shutil.rmtree(d, ignore_errors=True)
    return events, rejected


def run_sharded(name, cases, features="syn1", shards=1):
    """Shard cases over several crates. The first shard warms the dependency build in the shared target dir; the
    others run in parallel, each in its own copy of that target dir (cargo serialises builds sharing one)."""
    if shards <= 1 or len(cases) < 40:
        return run_batch(name, cases, features)
    parts = [cases[i::shards] for i in range(shards)]
    evs, rej = run_batch(f"{name}-0", parts[0], features)
    warm_dir = os.path.join(common.WORK, f"tgt-rt-{features}")

    def one(i):
        own = os.path.join(common.WORK, f"tgt-rt-{features}-p{i}")
        if os.path.exists(own):
            shutil.rmtree(own)
        subprocess.run(["cp", "-a", warm_dir, own])
        try:
            return run_batch(f"{name}-{i}", parts[i], features, tgt=own)
        finally:
            shutil.rmtree(own, ignore_errors=True)
    with ThreadPoolExecutor(max_workers=min(shards - 1, 7)) as ex:
        for e, r in ex.map(one, range(1, shards)):
            evs += e
            rej += r
    return evs, rej


def rustc_sig(recs):
    """signature of a rustc rejection: (error code, first line with identifiers abstracted)"""
    r = recs[0]
    m = re.sub(r"`[^`]*`", "`_`", r["message"])
    m = re.sub(r"[0-9]+", "N", m)
    return f"{r['code'] or 'E?'}:{m[:70]}"


def warm():
    c = Case(0, "pub struct T { pub a: i32 }\n#[derive(o2o::o2o)]\n#[map_owned(T)]\npub struct S { pub a: i32 }\npub fn run(log: &mut crate::rt::Log) { let s: S = T { a: 1 }.into(); log.ev(\"c0\", \"from_owned\", 0, \"\", &format!(\"{}\", s.a), \"1\"); }\n")
    run_batch("warm", [c], "syn1")
