"""Meaning-preserving transformations of a derive input (the metamorphic relations of C06/C12/C13)."""
import re
from .model import Instr, TRAIT_SHORT, FALLIBLE_NAME, INFALLIBLE_NAME, NO_BARE, is_fallible_name, base_name

KNOWN_NAMES = set(FALLIBLE_NAME) | set(INFALLIBLE_NAME) | {"ghost", "ghost_owned", "ghost_ref", "ghosts", "ghosts_owned", "ghosts_ref", "child", "children", "child_parents", "parent",
                                                          "where_clause", "literal", "pattern", "type_hint", "as_type", "repeat", "skip_repeat", "stop_repeat", "allow_unknown"}
GHOST_SHORT = {"ghost": ["ghost_owned", "ghost_ref"], "ghosts": ["ghosts_owned", "ghosts_ref"]}


def respell(item, g, mode):
    """mode: 'bare' | 'o2o' (each instruction wrapped on its own) | 'grouped' (one list per owner, foreign attrs split
    groups) | 'mixed' (random per instruction, random grouping of adjacent wrapped ones)."""
    it = item.copy()
    gid = [0]
    for _, owner, lst in it.all_attr_lists():
        cur = None
        for ins in lst:
            if ins.kind == "foreign":
                cur = None
                continue
            if ins.kind == "raw" and ins.name not in KNOWN_NAMES:
                # a name o2o does not know has no "bare form": written bare it is somebody else's attribute
                cur = None
                continue
            if mode == "bare":
                ins.spelling, ins.group = "bare", None
                if ins.name in NO_BARE:
                    ins.spelling = "o2o"
            elif mode == "o2o":
                ins.spelling, ins.group = "o2o", None
            elif mode == "grouped":
                if cur is None:
                    gid[0] += 1
                    cur = gid[0]
                ins.spelling, ins.group = "o2o", cur
            else:
                if ins.name in NO_BARE or g.chance(0.6):
                    ins.spelling = "o2o"
                    if cur is None or g.chance(0.4):
                        gid[0] += 1
                        cur = gid[0]
                    ins.group = cur
                    ins.f["_trailing_comma"] = g.chance(0.2)
                else:
                    ins.spelling, ins.group = "bare", None
                    cur = None
    return it


def _expand_parent_fields(s):
    """inside #[parent(..)] argument text: [map(x)] -> [from_owned(x)] [from_ref(x)] [owned_into(x)] [ref_into(x)] etc."""
    def rep(m):
        name, args = m.group(1), m.group(2)
        if name in TRAIT_SHORT:
            return " ".join(f"[{b}({args})]" for b in TRAIT_SHORT[name])
        return m.group(0)
    return re.sub(r"\[(\w+)\(([^\[\]()]*(?:\([^()]*\))?[^\[\]()]*)\)\]", rep, s)


def expand_shortcuts(item):
    """Replace every shortcut instruction by the README's list of basic instructions with the same arguments.
    Returns (new_item, list_of_shortcuts_expanded)."""
    it = item.copy()
    used = []
    for level, owner, lst in it.all_attr_lists():
        new = []
        for ins in lst:
            if ins.kind in ("trait", "map"):
                b = base_name(ins.name)
                if b in TRAIT_SHORT:
                    fal = is_fallible_name(ins.name)
                    used.append((ins.name, level))
                    for basic in TRAIT_SHORT[b]:
                        c = ins.copy()
                        c.name = FALLIBLE_NAME[basic] if fal else basic
                        new.append(c)
                    continue
            if ins.kind in ("ghost", "ghosts") and ins.name in GHOST_SHORT:
                used.append((ins.name, level))
                for basic in GHOST_SHORT[ins.name]:
                    c = ins.copy()
                    c.name = basic
                    new.append(c)
                continue
            if ins.kind == "parent" and ins.f.get("fields"):
                nf = _expand_parent_fields(ins.f["fields"])
                if nf != ins.f["fields"]:
                    used.append(("[shortcut] in parent", level))
                    ins = ins.copy()
                    ins.f["fields"] = nf
            new.append(ins)
        lst[:] = new
    return it, used


def cpkey(s):
    if isinstance(s, (list, tuple)):
        s = "".join(s)
    return re.sub(r"[\s:^]", "", s)


def project(item, cp):
    """Drop everything that concerns counterparts other than `cp`."""
    it = item.copy()
    k = cpkey(cp)
    dropped = []
    for level, owner, lst in it.all_attr_lists():
        keep = []
        for ins in lst:
            if ins.kind == "trait":
                if cpkey(ins.f["ty"]) == k:
                    keep.append(ins)
                else:
                    dropped.append(("trait", ins.name))
            elif ins.kind in ("foreign", "raw", "repeat", "skip_repeat", "stop_repeat", "allow_unknown"):
                keep.append(ins)
            else:
                c = ins.container()
                if c is None or cpkey(c) == k:
                    keep.append(ins)
                else:
                    dropped.append((ins.kind, ins.name, level))
        lst[:] = keep
    return it, dropped
