"""Hostile workload for C16/C17/C18: mutated and free-form 'attribute soup' inputs.

Starts from generated valid inputs and applies structure-level mutations (delete / duplicate / move / reorder
instructions, wrong level, wrong item kind, argument splicing from a pool of every argument form, empty
arguments, unions, unit / zero-field items). Embedded types, patterns and expressions stay well-formed
token trees; what is hostile is their *placement*.
"""
from . import xgen
from .model import Instr, Field, Variant, Item, ALL_TRAIT_NAMES

TYPE_LEVEL = ["ghosts", "ghosts_owned", "ghosts_ref", "child_parents", "where_clause", "allow_unknown", "children"]
MEMBER_LEVEL = xgen.MEMBER_MAP_NAMES + ["ghost", "ghost_owned", "ghost_ref", "ghosts", "ghosts_owned", "ghosts_ref", "child", "parent", "as_type", "literal", "pattern", "type_hint",
                                        "repeat", "skip_repeat", "stop_repeat", "owned_try_into_existing", "ref_try_into_existing", "try_into_existing"]
ARG_POOL = [
    None, "", "A", "A, E", "A as {}", "A as ()", "A as Unit", "(i32, String)", "A| return @.x", "A| ..d()", "A| _ => p()", "A| vars(v: {1})", "A, E| vars(a: {1}, b: {a}), return b",
    "A| repeat(), return 1", "A| skip_repeat", "A| stop_repeat", "A| repeat(vars)", "A| attribute(inline)", "A| impl_attribute(cfg(x)), inner_attribute(allow(y))",
    "x", "0", "1", "x, ~.clone()", "0, ~ + 1", "~", "@", "~.y()", "@.z", "{ ~ }", "{1}", "A| x", "A| ~", "A| {1}", "A| x, ~", "B| 0", "A|",
    "a", "a.b", "a.b.c", "0.1", "A| a.b", "a: T", "a: T, a.b: U", "a: T as ()", "A| a: T", "a@g: {1}", "g: {1}", "0: {1}", "X: {1}", "X(..): {1}", "X { y, .. }: {y}", "A| g: {1}, h: {2}",
    "a.b@g: {1}", "T: Clone", "A| T: Clone, U: Copy", "as ()", "as {}", "as Unit", "A| as ()", "as Foo", "1", "\"s\"", "1..=5", "_", "1 | 2", "A| 3",
    "i32", "x, i32", "A| i32", "permeate()", "permeate(), map", "map, child", "bogus", "x, y", "[map(z)] x, y", "[parent(a, b)] c: C", "[parent(a)] c", "x: X", "A| x, y",
    "[from(~.q())] x", "[bogus(1)] x", "[parent(a)] [parent(b)] c: C", "1: {1}, 0: {2}", ", ,", "a,", "::A", "a::b::C<T>", "A<'a>", "A::<u8>| x",
    # literals of every kind as the whole argument / first argument: only an unsuffixed integer that fits a tuple index designates a member
    "7u8", "1u16", "0usize", "10000000000", "4294967296", "1.5", "1e3", "2f32", "'c'", "b'c'", "b\"bs\"", "true", "-1", "0x1f", "0b11u8", "1_000", "A| 7u8", "7u8, ~", "[from(1u8)] x", "[map(7u8)] 0, 1",
    "0: T", "1u8: T", "0u8.a", "7u8: {1}", "10000000000: {1}", "A| 0u8", "3i32..=5i32", "0 1", "0.0.0",
    "@.0.to_string()", "A| vars(x: 1)", "A| vars()", "A| repeat(bogus)", "A, | x", "A as", "A| return", "A| ..", "A| _", "A| _ =>", "{", "(", "A| attribute()",
]
ARG_POOL = [a for a in ARG_POOL if a is None or (a.count("(") == a.count(")") and a.count("{") == a.count("}") and a.count("[") == a.count("]"))]


def raw(g, level):
    if g.chance(0.01):
        # the wrapper attribute itself, without an argument list / as a name-value attribute
        return Instr("foreign", "foreign", text=g.pick(["o2o", 'o2o = "x"', "o2o()", "o2o[]", "o2o{}", "o2o(,)"]))
    names = (ALL_TRAIT_NAMES + TYPE_LEVEL) if level == "type" else MEMBER_LEVEL
    if g.chance(0.25):
        names = ALL_TRAIT_NAMES + TYPE_LEVEL + MEMBER_LEVEL
    nm = g.pick(names)
    sp = "o2o" if (g.chance(0.3) or nm in ("as_type", "repeat", "skip_repeat", "stop_repeat", "allow_unknown")) else "bare"
    return Instr(nm, "raw", args=g.pick(ARG_POOL), spelling=sp, group=(g.r.randint(1, 3) if g.chance(0.3) else None))


SAFE_OPS = ["delete", "dup", "reorder", "move", "retarget", "kindflip", "wrong_level", "shape", "hint", "param"]
ODD_OPS = ["param", "param", "delete", "reorder", "retarget", "enum_existing"]


def mutate(g, it, nmut=None, safe=False, ops=None):
    """safe=True: only structure-level mutations that keep every embedded type / pattern / expression a well-formed
    fragment for the position it ends up in being *parsed* as (C17's premise)."""
    r = g.r
    it = it.copy()
    for _ in range(nmut or r.randint(1, 4)):
        lists = list(it.all_attr_lists())
        op = r.choice(ops) if ops else r.choice(SAFE_OPS if safe else ["delete", "dup", "reorder", "move", "add_raw", "add_raw", "splice_args", "empty_args", "retarget", "kindflip", "wrong_level", "shape", "hint", "param"])
        lvl, owner, lst = r.choice(lists)
        if op == "delete" and lst:
            del lst[r.randrange(len(lst))]
        elif op == "dup" and lst:
            lst.insert(r.randint(0, len(lst)), r.choice(lst).copy())
        elif op == "reorder" and len(lst) > 1:
            r.shuffle(lst)
        elif op == "move" and lst:
            same = [l for l in lists if (l[0] == lvl or {l[0], lvl} <= {"field", "vfield"})] if safe else lists
            x = lst.pop(r.randrange(len(lst)))
            _, _, dst = r.choice(same)
            dst.insert(r.randint(0, len(dst)), x)
        elif op == "add_raw":
            lst.insert(r.randint(0, len(lst)), raw(g, "type" if lvl == "type" else "member"))
        elif op == "splice_args" and lst:
            x = r.choice(lst)
            lst[lst.index(x)] = Instr(x.name, "raw", args=g.pick(ARG_POOL), spelling=x.spelling)
        elif op == "empty_args" and lst:
            x = r.choice(lst)
            lst[lst.index(x)] = Instr(x.name, "raw", args=r.choice([None, ""]), spelling=x.spelling)
        elif op == "retarget" and lst:
            x = r.choice(lst)
            if "container" in x.f:
                x.f["container"] = r.choice([None, "A", "B", "Nope", "m::C"])
        elif op == "kindflip":
            if it.kind == "struct" and it.fields and g.chance(0.5):
                it.kind = "enum"
                it.variants = [Variant(f"V{i}", "unit" if g.chance(0.3) else ("tuple" if f.name is None else "named"), [Field(f.name, f.ty)] if True else [], f.attrs) for i, f in enumerate(it.fields)]
                for v in it.variants:
                    if v.shape == "unit":
                        v.fields = []
                it.fields = []
            elif it.kind == "enum" and it.variants and g.chance(0.5):
                it.kind = "struct"
                it.shape = "named"
                it.fields = [Field(f"f{i}", "i32", v.attrs) for i, v in enumerate(it.variants)]
                it.variants = []
            elif g.chance(0.15):
                if it.kind == "struct" and it.shape == "named" and it.fields:
                    it.kind = "union"
        elif op == "wrong_level" and lst:
            x = r.choice(lst).copy()
            # struct-only instructions onto variant fields etc.
            same = [l for l in lists if (l[0] == lvl or {l[0], lvl} <= {"field", "vfield"})] if safe else lists
            tgt = r.choice(same)[2]
            tgt.append(x)
        elif op == "enum_existing":
            if it.kind == "enum":
                cps = [a.f["ty"] for a in it.attrs if a.kind == "trait"] or ["A"]
                nm = r.choice(["into_existing", "owned_into_existing", "ref_into_existing", "try_into_existing"])
                it.attrs.append(Instr(nm, "trait", ty=r.choice(cps), hint=None, err="Ee" if nm.startswith("try") else None, params=[]))
        elif op == "hint":
            ts = [a for a in it.attrs if a.kind == "trait"]
            if ts:
                r.choice(ts).f["hint"] = r.choice([None, "{}", "()", "Unit"])
            vs = [v for v in it.variants]
            if vs and g.chance(0.5):
                v = r.choice(vs)
                v.attrs = [a for a in v.attrs if a.kind != "type_hint"] + [Instr("type_hint", "type_hint", container=None, hint=r.choice(["{}", "()", "Unit"]))]
        elif op == "param":
            ts = [a for a in it.attrs if a.kind == "trait"]
            if ts:
                t = r.choice(ts)
                k = g.mark()
                ps = [p for p in (t.f.get("params") or []) if p[0] not in ("update", "return", "default")]
                ps.append(r.choice([("update", f"k{k}()"), ("return", f"k{k}(@)"), ("default", f"=> k{k}()")]))
                t.f["params"] = ps
        elif op == "shape":
            if it.kind == "struct":
                ch = r.choice(["unit", "empty_named", "empty_tuple", "swap"])
                if ch == "unit":
                    it.shape, it.fields = "unit", []
                elif ch == "empty_named":
                    it.shape, it.fields = "named", []
                elif ch == "empty_tuple":
                    it.shape, it.fields = "tuple", []
                else:
                    if it.shape == "named":
                        it.shape = "tuple"
                        for f in it.fields:
                            f.name = None
                    elif it.shape == "tuple":
                        it.shape = "named"
                        for i, f in enumerate(it.fields):
                            f.name = f"f{i}"
            elif it.kind == "enum" and it.variants:
                v = r.choice(it.variants)
                v.shape, v.fields = r.choice([("unit", []), ("tuple", [Field(None, "i32")]), ("named", [Field("q", "i32")]), ("tuple", []), ("named", [])])
    return it


def free_form(g):
    """an item assembled from raw instructions only"""
    r = g.r
    kind = r.choice(["struct", "struct", "enum", "enum", "union"])
    it = Item(kind, "S", shape=r.choice(["named", "tuple", "unit"]) if kind == "struct" else "named")
    for _ in range(r.randint(0, 4)):
        it.attrs.append(raw(g, "type"))
    if g.chance(0.7):
        it.attrs.insert(0, Instr(g.pick(ALL_TRAIT_NAMES), "raw", args=g.pick(["A", "A, E", "A as {}", "A as ()", "A| return 1", "(i32, u8)"])))
    if kind in ("struct", "union"):
        if it.shape != "unit":
            for i in range(r.randint(0, 4)):
                it.fields.append(Field(f"f{i}" if it.shape == "named" else None, r.choice(["i32", "X", "Option<u8>", "&'a str", "[u8; 4]", "(i32, i32)"]), [raw(g, "member") for _ in range(r.randint(0, 3))]))
        if kind == "union":
            it.shape = "named"
            if not it.fields:
                it.fields.append(Field("u", "i32"))
    else:
        for i in range(r.randint(0, 4)):
            sh = r.choice(["unit", "tuple", "named"])
            v = Variant(f"V{i}", sh, [], [raw(g, "member") for _ in range(r.randint(0, 3))])
            if sh != "unit":
                for j in range(r.randint(0, 3)):
                    v.fields.append(Field(f"x{j}" if sh == "named" else None, "i32", [raw(g, "member") for _ in range(r.randint(0, 2))]))
            it.variants.append(v)
    return it


def gen_item(g):
    if g.chance(0.35):
        return free_form(g)
    return mutate(g, xgen.gen(g))


def gen(g):
    return gen_item(g).render()


def wild(g):
    """'odd but accepted' candidates: every instruction is drawn from its own documented grammar for the level it
    sits on (well-formed fragments), but hints, params, shapes and instruction combinations are not coherent."""
    r = g.r
    it = xgen.gen(g)
    it = mutate(g, it, nmut=r.randint(0, 3), safe=True)
    cps = [a.f["ty"] for a in it.attrs if a.kind == "trait"] or ["A"]
    # incoherent extras
    for _ in range(r.randint(0, 3)):
        k = g.mark()
        roll = r.random()
        if roll < 0.25:
            nm = g.pick(ALL_TRAIT_NAMES)
            fal = nm in xgen.FALLIBLE_NAME.values()
            ps = []
            if g.chance(0.5):
                ps.append(r.choice([("update", f"k{k}()"), ("return", f"k{k}(@)"), ("default", f"=> k{k}()"), ("vars", [(f"v{k}", f"k{k}()")])]))
            it.attrs.append(Instr(nm, "trait", ty=r.choice(cps + [f"N{k}"]), hint=r.choice([None, None, "{}", "()", "Unit"]), err="Ew" if fal else None, params=ps))
        elif roll < 0.4:
            named = g.chance(0.5)
            it.attrs.append(Instr(r.choice(["ghosts", "ghosts_owned", "ghosts_ref"]), "ghosts", container=(r.choice(cps) if g.chance(0.3) else None),
                                  entries=[dict(path=(r.choice(["pa", "pa.pb"]) if g.chance(0.2) else None), ident=(f"g{k}" if named else r.randint(0, 5)), action=f"k{k}()")]))
        else:
            ms = it.fields if it.kind == "struct" else it.variants
            if not ms:
                continue
            m = r.choice(ms)
            if it.kind == "enum" and m.fields and g.chance(0.5):
                m = r.choice(m.fields)
                lvl = "vfield"
            else:
                lvl = "field" if it.kind == "struct" else "variant"
            c = r.choice(cps) if g.chance(0.25) else None
            opts = ["map", "ghost"]
            if lvl == "field":
                opts += ["child", "parent", "parent_args", "as_type"]
            if lvl == "variant":
                opts += ["type_hint", "literal", "pattern", "ghosts"]
            o = r.choice(opts)
            if o == "map":
                named = g.chance(0.6)
                m.attrs.append(Instr(r.choice(xgen.MEMBER_MAP_NAMES), "map", container=c, member=((f"m{k}" if named else r.randint(0, 3)) if g.chance(0.6) else None),
                                     action=(f"k{k}(~)" if g.chance(0.6) else None), braced=g.chance(0.3), parens=True))
                if m.attrs[-1].f["member"] is None and m.attrs[-1].f["action"] is None:
                    m.attrs[-1].f["action"] = f"k{k}(@)"
            elif o == "ghost":
                m.attrs.append(Instr(r.choice(["ghost", "ghost_owned", "ghost_ref"]), "ghost", container=c, action=(f"k{k}()" if g.chance(0.7) else None), braced=True, bar=True))
            elif o == "child":
                m.attrs.append(Instr("child", "child", container=c, path=r.choice(["pa", "pa.pb", "pc", "0", "pa.0"])))
            elif o == "parent":
                m.attrs.append(Instr("parent", "parent", container=c, fields=None))
            elif o == "parent_args":
                m.attrs.append(Instr("parent", "parent", container=c, fields=r.choice([f"x{k}, y{k}", f"[map(m{k})] x{k}, y{k}", f"x{k}, [parent(a{k}, b{k})] q{k}: Q{k}", f"0, 1", f"[map(z{k})] 0, 1"])))
            elif o == "as_type":
                m.attrs.append(Instr("as_type", "as_type", container=c, member=None, ty="i64"))
            elif o == "type_hint":
                m.attrs.append(Instr("type_hint", "type_hint", container=c, hint=r.choice(["{}", "()", "Unit"])))
            elif o == "literal":
                m.attrs.append(Instr("literal", "literal", container=c, tokens=str(k)))
            elif o == "pattern":
                m.attrs.append(Instr("pattern", "pattern", container=c, tokens=r.choice([f"{k}..={k + 3}", "_"])))
            elif o == "ghosts":
                m.attrs.append(Instr("ghosts", "ghosts", container=c, entries=[dict(path=None, ident=(f"g{k}" if g.chance(0.5) else r.randint(0, 3)), action=f"k{k}()")]))
    return it
