"""Reach evidence (DESIGN §2.7): source-region coverage of the functions a property is anchored in, measured by the
compiler's own instrumentation (-Cinstrument-coverage) on an extra build of the level-X driver. This is reporting, not
an oracle: it shows which regions of e.g. render_struct_line the workload of a run actually executed."""
import json
import os
import re
import subprocess
import tempfile
from . import common

NIGHTLY_BIN = os.path.expanduser("~/.rustup/toolchains/nightly-x86_64-unknown-linux-gnu/lib/rustlib/x86_64-unknown-linux-gnu/bin")


def _anchored_names(prop):
    names = set()
    for l in open(os.path.join(common.VERIF, "properties.jsonl")):
        p = json.loads(l)
        if p["id"] != prop:
            continue
        for m in p["anchors"].get("mechanism", []):
            for w in re.findall(r"[A-Za-z_][A-Za-z0-9_]{3,}", m.get("name", "")):
                if "_" in w or (w[0].isupper() and len(w) >= 8):      # function-like identifiers only
                    names.add(w)
    return names


def derive_inputs(texts):
    """split generated program fragments into the items a derive macro receives (the #[derive(..)] line is not part of its input)"""
    out = []
    for t in texts:
        parts = re.split(r"(?m)^#\[derive\([^\n]*o2o[^\n]*\)\]\n", t)
        for p in parts[1:]:
            # an item ends at the first line that is exactly `}` / `);` / `;` terminated struct
            m = re.search(r"(?m)^(\}|\);|pub struct \w+;|struct \w+;)\s*$", p)
            out.append(p[:m.end()] if m else p)
    return out


def report(ck, prop, srcs, limit=6000):
    tgt = os.path.join(common.WORK, "tgt-cov")
    crate = common.harness_dir("xdrv")
    ok, out = common.cargo_build(crate, tgt, extra=["--features", "s1"], toolchain="nightly", rustflags="-Cinstrument-coverage")
    if not ok:
        ck.note_inconclusive("coverage build failed: " + out[-300:])
        return
    binary = os.path.join(tgt, "release/xdrv")
    srcs = srcs[:limit]
    with tempfile.TemporaryDirectory(dir=common.WORK) as td:
        inp = os.path.join(td, "in.jsonl")
        with open(inp, "w") as f:
            for i, s in enumerate(srcs):
                f.write(json.dumps({"id": i, "src": s, "notext": True}) + "\n")
        # known panics abort nothing (catch_unwind), but a dying process would lose its counters: shard
        shards = 8
        lines = open(inp).read().split("\n")
        profs = []
        for k in range(shards):
            part = os.path.join(td, f"in{k}.jsonl")
            with open(part, "w") as f:
                f.write("\n".join(lines[k::shards]) + "\n")
            prof = os.path.join(td, f"p{k}.profraw")
            with open(part) as fin:
                subprocess.run([binary], stdin=fin, stdout=subprocess.DEVNULL, stderr=subprocess.DEVNULL, env=dict(os.environ, LLVM_PROFILE_FILE=prof), timeout=1200)
            if os.path.exists(prof):
                profs.append(prof)
        if not profs:
            ck.note_inconclusive("coverage run produced no profile")
            return
        merged = os.path.join(td, "m.profdata")
        subprocess.run([os.path.join(NIGHTLY_BIN, "llvm-profdata"), "merge", "-sparse", "-o", merged] + profs, check=False, stdout=subprocess.DEVNULL, stderr=subprocess.DEVNULL)
        p = subprocess.run([os.path.join(NIGHTLY_BIN, "llvm-cov"), "export", "-format=text", "-instr-profile", merged, binary,
                            "--ignore-filename-regex", r"(\.cargo|rustc|harness)"], stdout=subprocess.PIPE, stderr=subprocess.PIPE)
        if p.returncode != 0:
            ck.note_inconclusive("llvm-cov export failed: " + p.stderr.decode()[-200:])
            return
        data = json.loads(p.stdout.decode())
    want = _anchored_names(prop)
    rows = {}
    for fn in data["data"][0].get("functions", []):
        files = fn.get("filenames", [])
        if not files or "/o2o-impl/src/" not in files[0]:
            continue
        name = fn["name"]
        # mangled names carry length-prefixed identifiers: "<len><ident>"
        short = None
        for w in want:
            if f"{len(w)}{w}" in name:
                if short is None or len(w) > len(short):
                    short = w
        if short is None:
            continue
        regs = [r for r in fn["regions"] if r[7] == 0]          # code regions
        tot = len(regs)
        hit = sum(1 for r in regs if r[4] > 0)
        key = os.path.basename(files[0]) + "::" + short
        a = rows.setdefault(key, {"regions": 0, "executed": 0, "unexecuted_lines": set(), "calls": 0})
        a["regions"] = max(a["regions"], tot)
        a["executed"] = max(a["executed"], hit)
        a["calls"] += fn.get("count", 0)
        for r in regs:
            if r[4] == 0:
                a["unexecuted_lines"].add(r[0])
    ck.extra["anchored_function_coverage"] = {k: {"regions": v["regions"], "executed": v["executed"], "calls": v["calls"], "unexecuted_region_start_lines": sorted(v["unexecuted_lines"])[:40]}
                                               for k, v in sorted(rows.items())}
    ck.extra["coverage_note"] = f"region counts from -Cinstrument-coverage on a separate build of the level-X driver, {len(srcs)} inputs of this run; reporting only"
