"""Level-R corroboration for C04 (impl-presence probes, Error TypeId) and C20 (a real #![no_std] crate)."""
import json
import os
import re
import shutil
import subprocess
from . import common, rt, rgen
from .model import Instr, Field, Item, ALL_TRAIT_NAMES, kinds_of, is_fallible_name

FORMS = [("From", "S", "T"), ("From", "S", "&T"), ("Into", "S", "T"), ("Into", "&S", "T"), ("TryFrom", "S", "T"), ("TryFrom", "S", "&T"), ("TryInto", "S", "T"), ("TryInto", "&S", "T"),
         ("IntoExisting", "S", "T"), ("IntoExisting", "&S", "T"), ("TryIntoExisting", "S", "T"), ("TryIntoExisting", "&S", "T")]
KIND_FORM = {"from_owned": ("From", "S", "T"), "from_ref": ("From", "S", "&T"), "owned_into": ("Into", "S", "T"), "ref_into": ("Into", "&S", "T"),
             "owned_into_existing": ("IntoExisting", "S", "T"), "ref_into_existing": ("IntoExisting", "&S", "T")}


def closure(explicit):
    """std's blanket impls: From<X> for S => Into<S> for X => TryFrom<X> for S ; Into<T> for Y => TryFrom<Y> for T => TryInto<T> for Y"""
    res = set(explicit)
    for tr, a, b in list(explicit):
        if tr == "From":
            res.add(("TryFrom", a, b))
        if tr == "Into":
            res.add(("TryInto", a, b))
    return res


def c04_presence(ck, g, tier):
    n = 40 if tier == "quick" else 800
    cases = []
    exp = {}
    for i in range(n):
        fal = g.chance(0.5)
        names = [x for x in ALL_TRAIT_NAMES if is_fallible_name(x) == fal]
        taken, chosen = set(), []
        for _ in range(g.r.randint(1, 4)):
            nm = g.pick(names)
            ks = set(kinds_of(nm))
            if ks & taken:
                continue
            taken |= ks
            chosen.append(nm)
        g.r.shuffle(chosen)
        it = Item("struct", "S", shape="named", vis="pub ")
        it.attrs = [Instr(nm, "trait", ty="T", hint=None, err="Er" if fal else None, params=[]) for nm in chosen]
        it.fields = [Field("a", "i32"), Field("b", "u8")]
        explicit = set()
        for nm in chosen:
            for k in kinds_of(nm):
                tr, a, b = KIND_FORM[k]
                explicit.add((("Try" if fal else "") + tr, a, b))
        want = closure(explicit)
        src = it.render(derive="#[derive(Clone, o2o::o2o)]")
        code = ["use crate::rt::*;", "#[derive(Clone)] pub struct T { pub a: i32, pub b: u8 }", "#[derive(Debug)] pub struct Er;", src, "pub fn run(log: &mut crate::rt::Log) {"]
        for tr, a, b in FORMS:
            code.append(f'    log.note("c{i}", "{tr}<{b}> for {a}", &format!("{{}}", <P{tr}<{a}, {b}>>::IMPLS));')
        if fal:
            for k in taken:
                tr, a, b = KIND_FORM[k]
                if tr == "From":
                    code.append(f'    log.note("c{i}", "Error of Try{tr}<{b}> for {a}", &format!("{{}}", type_id_of::<<{a} as TryFrom<{b}>>::Error>() == type_id_of::<Er>()));')
                elif tr == "Into" and a == "S":
                    code.append(f'    log.note("c{i}", "Error of Try{tr}<{b}> for {a}", &format!("{{}}", type_id_of::<<{a} as TryInto<{b}>>::Error>() == type_id_of::<Er>()));')
                elif tr == "IntoExisting" and a == "S":
                    code.append(f'    log.note("c{i}", "Error of Try{tr}<{b}> for {a}", &format!("{{}}", type_id_of::<<{a} as o2o::traits::TryIntoExisting<{b}>>::Error>() == type_id_of::<Er>()));')
        code.append("}")
        cases.append(rt.Case(i, "\n".join(code) + "\n", meta=dict(src=src, want=want, names=chosen)))
        exp[i] = (want, src, chosen)
    events, rejected = rt.run_sharded("c04p-" + tier, cases, "syn1", 1 if tier == "quick" else 8)
    for c in rejected:
        ck.count()
        ck.violation(f"presence|rustc_rejects|{rt.rustc_sig(c.rejected)}", dict(input=c.meta["src"], rustc=[r["rendered"] for r in c.rejected[:2]]))
    seen = {}
    for e in events:
        if "note" not in e:
            continue
        cid = int(e["case"][1:])
        want, src, chosen = exp[cid]
        ck.count()
        if e["note"].startswith("Error of"):
            if e["val"] != "true":
                ck.violation("presence|error_type_id_differs", dict(input=src, probe=e["note"]))
            continue
        m = re.match(r"(\w+)<(&?T)> for (&?S)", e["note"])
        form = (m.group(1), m.group(3), m.group(2))
        present = e["val"] == "true"
        seen.setdefault(cid, set())
        if present:
            seen[cid].add(form)
        if present != (form in want):
            ck.violation(f"presence|{'extra' if present else 'missing'}|{form[0]}", dict(input=src, form=e["note"], observed=present, expected=(form in want)))
    for cid, forms in seen.items():
        ck.cell(["presence", sorted(exp[cid][2])])
    ck.extra["presence_probe_programs"] = n


NOSTD_LEAVES = ["i8", "i16", "i32", "i64", "u8", "u16", "u32", "bool", "char"]
RNG_NOSTD = '''
pub struct Rng(pub u64);
impl Rng {
    pub fn new(seed: u64) -> Rng { Rng(seed.wrapping_mul(0x9E3779B97F4A7C15) | 1) }
    pub fn next(&mut self) -> u64 { let mut x = self.0; x ^= x << 13; x ^= x >> 7; x ^= x << 17; self.0 = x; x.wrapping_mul(0x2545F4914F6CDD1D) }
    pub fn i8(&mut self) -> i8 { self.next() as i8 }
    pub fn i16(&mut self) -> i16 { self.next() as i16 }
    pub fn i32(&mut self) -> i32 { self.next() as i32 }
    pub fn i64(&mut self) -> i64 { self.next() as i64 }
    pub fn u8(&mut self) -> u8 { self.next() as u8 }
    pub fn u16(&mut self) -> u16 { self.next() as u16 }
    pub fn u32(&mut self) -> u32 { self.next() as u32 }
    pub fn bool(&mut self) -> bool { self.next() & 1 == 1 }
    pub fn char(&mut self) -> char { (b'a' + (self.next() % 26) as u8) as char }
}
'''


def c20_nostd(ck, g, tier):
    """README 'no_std': the crate depends on o2o-macros and on o2o with default-features = false."""
    n, draws = (30, 4) if tier == "quick" else (400, 8)
    d = os.path.join(common.WORK, f"nostd-{tier}")
    shutil.rmtree(d, ignore_errors=True)
    os.makedirs(os.path.join(d, "ns/src"))
    os.makedirs(os.path.join(d, "runner/src"))
    with open(os.path.join(d, "Cargo.toml"), "w") as f:
        f.write('[workspace]\nmembers = ["ns", "runner"]\nresolver = "2"\n\n[profile.dev]\nopt-level = 0\ndebug = false\nincremental = false\n')
    shutil.copy(os.path.join(common.REPO, "Cargo.lock"), os.path.join(d, "Cargo.lock"))
    with open(os.path.join(d, "ns/Cargo.toml"), "w") as f:
        f.write(f'[package]\nname = "ns"\nversion = "0.0.0"\nedition = "2021"\n\n[dependencies]\no2o-macros = {{ path = "{common.REPO}/o2o-macros" }}\no2o = {{ path = "{common.REPO}", default-features = false }}\n')
    with open(os.path.join(d, "runner/Cargo.toml"), "w") as f:
        f.write('[package]\nname = "runner"\nversion = "0.0.0"\nedition = "2021"\n\n[dependencies]\nns = { path = "../ns" }\n')
    lib = ["#![no_std]", "#![allow(dead_code, unused_variables, unused_imports, unused_mut, non_snake_case, unused_parens, unused_braces)]", RNG_NOSTD,
           "#[derive(Clone, Debug, PartialEq)]\npub struct Er(pub u32);", "pub fn chk(v: i32, id: u32) -> Result<i32, Er> { if v % 5 == 0 { Err(Er(id)) } else { Ok(v) } }"]
    specs = {}
    for i in range(n):
        sc = rgen.gen_struct_case(g, i, dict(leaves=NOSTD_LEAVES))
        ci, di, _ = rgen.render_module(sc, g, False, draws, nostd=True)
        cf, df, _ = rgen.render_module(sc, g, True, draws, nostd=True)
        if "positional_permuted" in sc.flags:
            continue
        specs[i] = (sc, di)
        lib.append(f"pub mod c{i} {{\n    pub use super::{{Er, chk}};\n    pub mod inf {{\n{ci}\n    }}\n    pub mod fal {{\n{cf}\n    }}\n    pub fn run(report: &mut dyn FnMut(&'static str, &'static str, bool)) {{ inf::run(report); fal::run(report); }}\n}}")
    lib.append("pub fn run_all(report: &mut dyn FnMut(&'static str, &'static str, bool)) {\n" + "\n".join(f"    c{i}::run(report);" for i in specs) + "\n}")
    with open(os.path.join(d, "ns/src/lib.rs"), "w") as f:
        f.write("\n".join(lib) + "\n")
    with open(os.path.join(d, "runner/src/main.rs"), "w") as f:
        f.write('fn main() { ns::run_all(&mut |case, conv, ok| println!("{} {} {}", case, conv, ok)); }\n')
    tgt = os.path.join(common.WORK, "tgt-nostd")
    try:
        p = subprocess.run(["cargo", "build", "--offline", "--message-format=json", "--target-dir", tgt], cwd=d, env=common.ENV, stdout=subprocess.PIPE, stderr=subprocess.PIPE, timeout=3000)
    except subprocess.TimeoutExpired:
        raise common.Inconclusive("watchdog: no_std workspace build timed out")
    if p.returncode != 0:
        msgs = []
        for line in p.stdout.decode("utf-8", "replace").split("\n"):
            if line.startswith("{"):
                try:
                    m = json.loads(line)
                except json.JSONDecodeError:
                    continue
                if m.get("reason") == "compiler-message" and m["message"].get("level") == "error":
                    msgs.append(m["message"])
        real = [m for m in msgs if not m["message"].startswith(("aborting", "could not compile"))]
        if not real:
            raise common.Inconclusive("no_std workspace failed to build without a compiler diagnostic: " + p.stderr.decode()[-500:])
        m0 = real[0]
        code = (m0.get("code") or {}).get("code")
        ck.count()
        ck.violation(f"no_std|crate_does_not_build|{code}:{re.sub(r'`[^`]*`', '`_`', m0['message'])[:60]}", dict(rustc=(m0.get("rendered") or "")[:2000]))
        shutil.rmtree(d, ignore_errors=True)
        return
    exe = os.path.join(tgt, "debug/runner")
    out = subprocess.run([exe], stdout=subprocess.PIPE, stderr=subprocess.PIPE, timeout=600)
    if out.returncode != 0:
        ck.note_inconclusive("no_std runner died: " + out.stderr.decode()[-300:])
    nev = 0
    for line in out.stdout.decode().split("\n"):
        parts = line.split()
        if len(parts) != 3:
            continue
        nev += 1
        ck.count()
        cid = int(re.match(r"c(\d+)", parts[0]).group(1))
        sc, di = specs[cid]
        ck.cell(["no_std_crate", sc.cell, parts[1]])
        if parts[2] != "true":
            ck.violation(f"no_std|wrong_value|{sc.cell}|{parts[1]}", dict(input=di, conversion=parts[1]))
    ck.extra["no_std_crate"] = {"programs": len(specs), "conversion_results": nev, "dependencies": "o2o-macros + o2o(default-features = false), crate is #![no_std]"}
    shutil.rmtree(d, ignore_errors=True)
