"""./run --setup : build the framework from files on disk only (offline)."""
import os
from . import common


def main():
    os.makedirs(common.WORK, exist_ok=True)
    try:
        common.xdrv_bin("s1")
        common.xdrv_bin("s2")
        common.xan_bin()
        try:
            from . import rt
            rt.warm()
        except ImportError:
            pass
    except common.Inconclusive as e:
        print("setup failed:", e)
        return 1
    print("setup ok")
    return 0
