//! Level-X driver (DESIGN §2.2): a monitor around `o2o_impl::expand::derive`.
//!
//! Protocol: JSON lines on stdin `{"id":.., "src":"<derive input>", "reps":N}` ->
//! one JSON line per request on stdout. `reps` extra executions run on fresh threads
//! (fresh `RandomState` keys => different HashMap iteration orders); every distinct
//! outcome is reported in `outcomes`.
//!
//! Nothing here interprets o2o's source; it observes Ok(tokens) / Err(diagnostics) / unwind.

#[cfg(feature = "s1")]
use syn1 as syn;
#[cfg(feature = "s2")]
use syn2 as syn;

use proc_macro2::{Delimiter, Spacing, TokenStream, TokenTree};
use serde_json::{json, Value};
use std::cell::RefCell;
use std::io::{BufRead, Write};
use std::panic::{catch_unwind, AssertUnwindSafe};

thread_local! {
    static LAST_PANIC: RefCell<Option<(String, String, String)>> = RefCell::new(None);
}

fn install_hook() {
    std::panic::set_hook(Box::new(|info| {
        let msg = if let Some(s) = info.payload().downcast_ref::<&str>() {
            s.to_string()
        } else if let Some(s) = info.payload().downcast_ref::<String>() {
            s.clone()
        } else {
            "<non-string panic payload>".to_string()
        };
        let loc = info.location().map(|l| format!("{}:{}", l.file(), l.line())).unwrap_or_default();
        let bt = std::backtrace::Backtrace::force_capture().to_string(); if std::env::var("XDRV_DUMP_BT").is_ok() { eprintln!("{}", bt); }
        // innermost frame whose symbol itself lives in o2o_impl ("  N: o2o_impl::..." or "  N: <o2o_impl::...")
        let mut func = String::new();
        for line in bt.lines() {
            let l = line.trim_start();
            let sym = match l.split_once(": ") {
                Some((n, rest)) if !n.is_empty() && n.chars().all(|c| c.is_ascii_digit()) => rest,
                _ => continue,
            };
            if sym.starts_with("o2o_impl::") || sym.starts_with("<o2o_impl::") {
                let mut f = sym.to_string();
                for pat in ["::{{closure}}", "::{closure#0}", "::{closure#1}", "::{closure#2}", "::{closure#3}"] {
                    while let Some(p) = f.find(pat) { f.replace_range(p..p + pat.len(), ""); }
                }
                func = f;
                break;
            }
        }
        LAST_PANIC.with(|c| *c.borrow_mut() = Some((msg, loc, func)));
    }));
}

fn canon(ts: TokenStream, out: &mut Vec<String>) {
    let v: Vec<TokenTree> = ts.into_iter().collect();
    for (i, tt) in v.iter().enumerate() {
        match tt {
            TokenTree::Group(g) => {
                let (o, c) = match g.delimiter() {
                    Delimiter::Parenthesis => ("(", ")"),
                    Delimiter::Brace => ("{", "}"),
                    Delimiter::Bracket => ("[", "]"),
                    Delimiter::None => ("\u{27e6}", "\u{27e7}"),
                };
                out.push(o.to_string());
                canon(g.stream(), out);
                out.push(c.to_string());
            }
            TokenTree::Ident(id) => out.push(id.to_string()),
            TokenTree::Literal(l) => out.push(l.to_string()),
            TokenTree::Punct(p) => {
                // spacing only matters when the next token is a punct too
                let next_is_punct = matches!(v.get(i + 1), Some(TokenTree::Punct(_)));
                if p.spacing() == Spacing::Joint && next_is_punct {
                    out.push(format!("{}^", p.as_char()));
                } else {
                    out.push(p.as_char().to_string());
                }
            }
        }
    }
}

/// One execution of parse + derive. Returns a JSON outcome.
fn run_once(src: &str) -> Value {
    LAST_PANIC.with(|c| *c.borrow_mut() = None);
    let parsed = match catch_unwind(AssertUnwindSafe(|| syn::parse_str::<syn::DeriveInput>(src))) {
        Ok(Ok(p)) => p,
        Ok(Err(e)) => return json!({"status": "input_unparsable", "msg": e.to_string()}),
        Err(_) => return json!({"status": "input_unparsable", "msg": "syn panicked while parsing the item"}),
    };
    let res = catch_unwind(AssertUnwindSafe(|| o2o_impl::expand::derive(&parsed)));
    match res {
        Ok(Ok(ts)) => {
            let text = ts.to_string();
            let mut toks = Vec::new();
            canon(ts, &mut toks);
            json!({"status": "ok", "tokens": toks, "text": text})
        }
        Ok(Err(e)) => {
            let msgs: Vec<String> = e.into_iter().map(|x| x.to_string()).collect();
            let validation = msgs.first().map(|m| m == "Cannot expand o2o macro").unwrap_or(false);
            json!({"status": "err", "class": if validation { "validation" } else { "parse" }, "msgs": msgs})
        }
        Err(_) => {
            let (msg, loc, func) = LAST_PANIC.with(|c| c.borrow_mut().take()).unwrap_or_default();
            json!({"status": "panic", "msg": msg, "loc": loc, "func": func})
        }
    }
}

fn main() {
    install_hook();
    let stdin = std::io::stdin();
    let stdout = std::io::stdout();
    let mut out = std::io::BufWriter::new(stdout.lock());
    // requests come on stdin, or - when stdin is not available (Miri with isolation) - as command line arguments
    let args: Vec<String> = std::env::args().skip(1).collect();
    let lines: Box<dyn Iterator<Item = std::io::Result<String>>> = if args.is_empty() { Box::new(stdin.lock().lines()) } else { Box::new(args.into_iter().map(Ok)) };
    for line in lines {
        let line = match line { Ok(l) => l, Err(_) => break };
        if line.trim().is_empty() { continue; }
        let req: Value = match serde_json::from_str(&line) {
            Ok(v) => v,
            Err(e) => { writeln!(out, "{}", json!({"status": "bad_request", "msg": e.to_string()})).ok(); continue; }
        };
        let id = req.get("id").cloned().unwrap_or(Value::Null);
        let src = req.get("src").and_then(|s| s.as_str()).unwrap_or("").to_string();
        let reps = req.get("reps").and_then(|r| r.as_u64()).unwrap_or(0);
        let notext = req.get("notext").and_then(|r| r.as_bool()).unwrap_or(false);
        let mut first = run_once(&src);
        let mut outcomes: Vec<Value> = Vec::new();
        if reps > 0 {
            let strip = |v: &Value| { let mut v = v.clone(); if let Some(o) = v.as_object_mut() { o.remove("text"); } v };
            let base = strip(&first);
            let mut handles = Vec::new();
            for _ in 0..reps {
                let s = src.clone();
                handles.push(std::thread::Builder::new().stack_size(16 << 20).spawn(move || { install_hook_noop(); run_once(&s) }).unwrap());
            }
            for h in handles {
                let r = h.join().unwrap_or_else(|_| json!({"status": "thread_join_failed"}));
                let r = strip(&r);
                if r != base && !outcomes.contains(&r) { outcomes.push(r); }
            }
        }
        if notext { if let Some(o) = first.as_object_mut() { o.remove("text"); } }
        let o = first.as_object_mut().unwrap();
        o.insert("id".into(), id);
        if reps > 0 {
            o.insert("reps".into(), json!(reps));
            o.insert("other_outcomes".into(), Value::Array(outcomes));
        }
        writeln!(out, "{}", first).ok();
        out.flush().ok();
    }
}

// the hook is process-global; threads need nothing, the name documents that.
fn install_hook_noop() {}
