#![no_main]
//! Coverage-guided workload for C16: the input bytes drive a compact grammar of "attribute soup" (all instruction
//! names x argument templates); `derive` runs under catch_unwind and panic signatures are appended to a log file so
//! that one known panic does not end the campaign.
use libfuzzer_sys::fuzz_target;
use std::io::Write;
use std::sync::Once;

static NAMES_T: &[&str] = &["owned_into", "ref_into", "from_owned", "from_ref", "owned_into_existing", "ref_into_existing", "map", "from", "into", "map_owned", "map_ref", "into_existing", "owned_try_into", "ref_try_into", "try_from_owned", "try_from_ref", "owned_try_into_existing", "ref_try_into_existing", "try_map", "try_from", "try_into", "try_map_owned", "try_map_ref", "try_into_existing", "ghosts", "ghosts_owned", "ghosts_ref", "child_parents", "where_clause", "allow_unknown", "children"];
static NAMES_M: &[&str] = &["owned_into", "ref_into", "into", "from_owned", "from_ref", "from", "map_owned", "map_ref", "map", "owned_into_existing", "ref_into_existing", "into_existing", "owned_try_into", "ref_try_into", "try_into", "try_from_owned", "try_from_ref", "try_from", "try_map_owned", "try_map_ref", "try_map", "ghost", "ghost_owned", "ghost_ref", "ghosts", "ghosts_owned", "ghosts_ref", "child", "parent", "as_type", "literal", "pattern", "type_hint", "repeat", "skip_repeat", "stop_repeat", "owned_try_into_existing", "ref_try_into_existing", "try_into_existing"];
static ARGS: &[&str] = &["", "A", "A, E", "A as {}", "A as ()", "A as Unit", "(i32, String)", "A| return @.x", "A| ..d()", "A| _ => p()", "A| vars(v: {1})", "A, E| vars(a: {1}, b: {a}), return b", "A| repeat(), return 1", "A| skip_repeat", "A| stop_repeat", "A| repeat(vars)", "A| attribute(inline)", "A| impl_attribute(cfg(x)), inner_attribute(allow(y))", "x", "0", "1", "x, ~.clone()", "0, ~ + 1", "~", "@", "~.y()", "@.z", "{ ~ }", "{1}", "A| x", "A| ~", "A| {1}", "A| x, ~", "B| 0", "A|", "a", "a.b", "a.b.c", "0.1", "A| a.b", "a: T", "a: T, a.b: U", "a: T as ()", "A| a: T", "a@g: {1}", "g: {1}", "0: {1}", "X: {1}", "X(..): {1}", "X { y, .. }: {y}", "A| g: {1}, h: {2}", "a.b@g: {1}", "T: Clone", "A| T: Clone, U: Copy", "as ()", "as {}", "as Unit", "A| as ()", "as Foo", "1", "\"s\"", "1..=5", "_", "1 | 2", "A| 3", "i32", "x, i32", "A| i32", "permeate()", "permeate(), map", "map, child", "bogus", "x, y", "[map(z)] x, y", "[parent(a, b)] c: C", "[parent(a)] c", "x: X", "A| x, y", "[from(~.q())] x", "[bogus(1)] x", "[parent(a)] [parent(b)] c: C", "1: {1}, 0: {2}", ", ,", "a,", "::A", "a::b::C<T>", "A<'a>", "A::<u8>| x", "@.0.to_string()", "A| vars(x: 1)", "A| vars()", "A| repeat(bogus)", "A, | x", "A as", "A| return", "A| ..", "A| _", "A| _ =>", "A| attribute()"];
static TYPES: &[&str] = &["i32", "X", "Option<u8>", "&'a str", "[u8; 4]", "(i32, i32)", "String"];

struct B<'a> { d: &'a [u8], i: usize }
impl<'a> B<'a> {
    fn n(&mut self, m: usize) -> usize { if m == 0 { return 0; } let v = if self.i < self.d.len() { self.d[self.i] as usize } else { 0 }; self.i += 1; v % m }
    fn attr(&mut self, out: &mut String, member: bool) {
        let all = self.n(4) == 0;
        let name = if all { let k = self.n(NAMES_T.len() + NAMES_M.len()); if k < NAMES_T.len() { NAMES_T[k] } else { NAMES_M[k - NAMES_T.len()] } }
                   else if member { NAMES_M[self.n(NAMES_M.len())] } else { NAMES_T[self.n(NAMES_T.len())] };
        let wrap = self.n(3) == 0 || matches!(name, "as_type" | "repeat" | "skip_repeat" | "stop_repeat" | "allow_unknown" | "ghost_owned" | "ghost_ref" | "ghosts_owned" | "ghosts_ref");
        let a = self.n(ARGS.len() + 2);
        let body = if a >= ARGS.len() { name.to_string() } else { format!("{}({})", name, ARGS[a]) };
        if wrap { out.push_str(&format!("#[o2o({})] ", body)); } else { out.push_str(&format!("#[{}] ", body)); }
    }
}

static HOOK: Once = Once::new();
thread_local! { static LAST: std::cell::RefCell<String> = std::cell::RefCell::new(String::new()); }

fuzz_target!(|data: &[u8]| {
    HOOK.call_once(|| {
        std::panic::set_hook(Box::new(|info| {
            let msg = if let Some(s) = info.payload().downcast_ref::<&str>() { s.to_string() } else if let Some(s) = info.payload().downcast_ref::<String>() { s.clone() } else { "?".into() };
            let loc = info.location().map(|l| format!("{}:{}", l.file(), l.line())).unwrap_or_default();
            LAST.with(|c| *c.borrow_mut() = format!("{}\t{}", msg.replace('\n', " "), loc));
        }));
    });
    let mut b = B { d: data, i: 0 };
    let mut s = String::new();
    for _ in 0..b.n(5) { b.attr(&mut s, false); }
    let kind = b.n(5);
    if kind < 2 {
        let shape = b.n(3);
        if shape == 2 { s.push_str("struct S;"); } else {
            s.push_str(if shape == 0 { "struct S { " } else { "struct S( " });
            for i in 0..b.n(5) { for _ in 0..b.n(4) { b.attr(&mut s, true); } if shape == 0 { s.push_str(&format!("f{}: ", i)); } s.push_str(TYPES[b.n(TYPES.len())]); s.push_str(", "); }
            s.push_str(if shape == 0 { "}" } else { ");" });
        }
    } else if kind < 4 {
        s.push_str("enum S { ");
        for i in 0..b.n(5) {
            for _ in 0..b.n(4) { b.attr(&mut s, true); }
            s.push_str(&format!("V{}", i));
            let sh = b.n(3);
            if sh > 0 {
                s.push_str(if sh == 1 { "(" } else { "{ " });
                for j in 0..b.n(4) { for _ in 0..b.n(3) { b.attr(&mut s, true); } if sh == 2 { s.push_str(&format!("x{}: ", j)); } s.push_str("i32, "); }
                s.push_str(if sh == 1 { ")" } else { "}" });
            }
            s.push_str(", ");
        }
        s.push_str("}");
    } else {
        s.push_str("union S { a: i32 }");
    }
    let parsed = match syn::parse_str::<syn::DeriveInput>(&s) { Ok(p) => p, Err(_) => return };
    let r = std::panic::catch_unwind(std::panic::AssertUnwindSafe(|| { let _ = o2o_impl::expand::derive(&parsed); }));
    if r.is_err() {
        let sig = LAST.with(|c| c.borrow().clone());
        if let Ok(path) = std::env::var("O2O_FUZZ_LOG") {
            // one log per forked worker: concurrent appends to one file would interleave
            if let Ok(mut f) = std::fs::OpenOptions::new().create(true).append(true).open(format!("{}.{}", path, std::process::id())) {
                let _ = writeln!(f, "{}\t{}", sig, s.replace('\n', " "));
            }
        }
    }
});
