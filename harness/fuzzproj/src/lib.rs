// placeholder crate: cargo-fuzz wants to live inside a cargo project
