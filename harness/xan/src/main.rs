//! xan: JSON lines {"id":..,"text":"<token text>"} -> JSON report per input.
use quote::ToTokens;
use serde_json::{json, Value};
use std::io::{BufRead, Write};
use syn::visit::Visit;

fn ts<T: ToTokens>(t: &T) -> String {
    t.to_token_stream().to_string()
}

struct IdentCollector(Vec<String>);
impl<'ast> Visit<'ast> for IdentCollector {
    fn visit_ident(&mut self, i: &'ast syn::Ident) {
        self.0.push(i.to_string());
    }
}

fn attr_json(a: &syn::Attribute) -> Value {
    json!({"inner": matches!(a.style, syn::AttrStyle::Inner(_)), "meta": ts(&a.meta)})
}

fn analyse(text: &str) -> Value {
    let file: syn::File = match syn::parse_str(text) {
        Ok(f) => f,
        Err(e) => return json!({"parse": "error", "msg": e.to_string()}),
    };
    let mut items = Vec::new();
    // flatten inline modules (rustc's -Zunpretty=expanded output nests the cases in modules)
    let mut flat: Vec<(String, &syn::Item)> = Vec::new();
    fn walk<'a>(prefix: &str, its: &'a [syn::Item], out: &mut Vec<(String, &'a syn::Item)>) {
        for it in its {
            if let syn::Item::Mod(m) = it {
                if let Some((_, inner)) = &m.content {
                    let p = if prefix.is_empty() { m.ident.to_string() } else { format!("{}::{}", prefix, m.ident) };
                    walk(&p, inner, out);
                    continue;
                }
            }
            out.push((prefix.to_string(), it));
        }
    }
    walk("", &file.items, &mut flat);
    for (modpath, it) in flat.iter() {
        let modpath = modpath.clone();
        match it {
            syn::Item::Impl(im) => {
                let (trait_path, trait_last, trait_args, trait_lead_colon, trait_segs) = match &im.trait_ {
                    Some((_, p, _)) => {
                        let last = p.segments.last().unwrap();
                        let args = match &last.arguments {
                            syn::PathArguments::AngleBracketed(a) => a.args.iter().map(|x| ts(x)).collect::<Vec<_>>(),
                            _ => vec![],
                        };
                        let segs: Vec<String> = p.segments.iter().map(|s| s.ident.to_string()).collect();
                        (ts(p), last.ident.to_string(), args, p.leading_colon.is_some(), segs)
                    }
                    None => (String::new(), String::new(), vec![], false, vec![]),
                };
                let (self_ref, self_lt, self_inner) = match &*im.self_ty {
                    syn::Type::Reference(r) => (true, r.lifetime.as_ref().map(|l| l.to_string()), ts(&*r.elem)),
                    t => (false, None, ts(t)),
                };
                let mut subs = Vec::new();
                for ii in &im.items {
                    match ii {
                        syn::ImplItem::Type(t) => subs.push(json!({"kind": "type", "name": t.ident.to_string(), "ty": ts(&t.ty)})),
                        syn::ImplItem::Fn(f) => {
                            let inputs: Vec<Value> = f.sig.inputs.iter().map(|a| match a {
                                syn::FnArg::Receiver(r) => json!({"receiver": true, "ref": r.reference.is_some(), "mut": r.mutability.is_some(), "text": ts(r)}),
                                syn::FnArg::Typed(t) => json!({"receiver": false, "pat": ts(&*t.pat), "ty": ts(&*t.ty)}),
                            }).collect();
                            let output = match &f.sig.output { syn::ReturnType::Default => String::new(), syn::ReturnType::Type(_, t) => ts(&**t) };
                            // inner attributes of the fn body are parsed by syn into f.attrs with Inner style
                            let attrs: Vec<Value> = f.attrs.iter().map(attr_json).collect();
                            let stmts = f.block.stmts.len();
                            subs.push(json!({"kind": "fn", "name": f.sig.ident.to_string(), "inputs": inputs, "output": output,
                                "attrs": attrs, "stmts": stmts, "generics": ts(&f.sig.generics),
                                "unsafe": f.sig.unsafety.is_some(), "async": f.sig.asyncness.is_some(), "const": f.sig.constness.is_some(),
                                "body": ts(&f.block)}));
                        }
                        other => subs.push(json!({"kind": "other", "text": ts(other)})),
                    }
                }
                let params: Vec<String> = im.generics.params.iter().map(|p| ts(p)).collect();
                let param_names: Vec<String> = im.generics.params.iter().map(|p| match p {
                    syn::GenericParam::Lifetime(l) => l.lifetime.to_string(),
                    syn::GenericParam::Type(t) => t.ident.to_string(),
                    syn::GenericParam::Const(c) => c.ident.to_string(),
                }).collect();
                let mut idc = IdentCollector(vec![]);
                idc.visit_item_impl(im);
                items.push(json!({
                    "kind": "impl", "mod": modpath,
                    "attrs": im.attrs.iter().map(attr_json).collect::<Vec<_>>(),
                    "params": params, "param_names": param_names,
                    "where": im.generics.where_clause.as_ref().map(|w| ts(w)),
                    "trait": trait_path, "trait_name": trait_last, "trait_args": trait_args,
                    "trait_leading_colon": trait_lead_colon, "trait_segs": trait_segs,
                    "negative": im.trait_.as_ref().map(|t| t.0.is_some()).unwrap_or(false),
                    "unsafe": im.unsafety.is_some(), "default": im.defaultness.is_some(),
                    "self_ref": self_ref, "self_lt": self_lt, "self_ty": self_inner,
                    "items": subs,
                    "idents": idc.0,
                    "text": ts(im),
                }));
            }
            other => items.push(json!({"kind": "other", "mod": modpath, "text": ts(*other).chars().take(200).collect::<String>()})),
        }
    }
    json!({"parse": "ok", "items": items, "file_attrs": file.attrs.len()})
}

fn main() {
    let stdin = std::io::stdin();
    let stdout = std::io::stdout();
    let mut out = std::io::BufWriter::new(stdout.lock());
    for line in stdin.lock().lines() {
        let line = match line { Ok(l) => l, Err(_) => break };
        if line.trim().is_empty() { continue; }
        let req: Value = match serde_json::from_str(&line) { Ok(v) => v, Err(e) => { writeln!(out, "{}", json!({"parse": "bad_request", "msg": e.to_string()})).ok(); continue; } };
        let text = req.get("text").and_then(|t| t.as_str()).unwrap_or("");
        let mut rep = match std::panic::catch_unwind(|| analyse(text)) { Ok(r) => r, Err(_) => json!({"parse": "error", "msg": "syn panicked"}) };
        rep.as_object_mut().unwrap().insert("id".into(), req.get("id").cloned().unwrap_or(Value::Null));
        writeln!(out, "{}", rep).ok();
        out.flush().ok();
    }
}
