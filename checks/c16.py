"""C16 - expansion never panics: every input yields impls or diagnostics.

Monitor: catch_unwind around o2o_impl::expand::derive (level-X driver) plus process-death detection.
Workload: generated valid inputs, fault-injected inputs, structure-mutated inputs and free-form attribute soup;
thorough adds a coverage-guided libFuzzer campaign and a Miri slice.
"""
import re
from vlib import common, xgen, soup, xform
from checks.c19 import multi_fault_items


def psig(o):
    return common.panic_sig(o)


def workload(g, tier):
    nsoup, nvalid, nfault = (14000, 1500, 1500) if tier == "quick" else (600000, 40000, 60000)
    wl = [("soup", soup.gen(g)) for _ in range(nsoup)]
    wl += [("valid", xform.respell(xgen.gen(g), g, g.pick(["bare", "mixed"])).render()) for _ in range(nvalid)]
    wl += [("faulty", it.render()) for it in multi_fault_items(g, nfault, 1, 5)]
    # the witness of every listed finding is executed explicitly on every run (DESIGN §2.5)
    import json, os
    for f in common.load_findings():
        if f.state == "open" and f.prop == "C16" and f.witness:
            try:
                w = json.load(open(os.path.join(common.VERIF, f.witness)))
                wl.append(("finding_witness", w["witness"]["input"]))
            except (OSError, KeyError, ValueError):
                pass
    from vlib.faults import INJECTORS, POSITIONS
    from checks import c14
    # otherwise-valid inputs with exactly one documented misuse: where a weakened rule lets an input through, the
    # expander's unreachable!/unwrap sites become reachable
    nb = 3 if tier == "quick" else 40
    bases = [xgen.gen(g, p) for p in ("struct_basic", "struct_basic", "struct_children", "struct_parents", "enum_basic", "enum_prim") for _ in range(nb)]
    for name, inj in INJECTORS.items():
        for pos in POSITIONS:
            for spell in ("bare", "o2o"):
                for b in bases:
                    it = b.copy()
                    f = inj(it, g, pos, spell)
                    if f is not None:
                        wl.append((f"single_fault:{f.cls}", it.render()))
    for _ in range(nvalid // 3):
        wl.append(("repeat", g.pick([c14.gen_struct, c14.gen_enum, c14.gen_trait_level])(g)[0].render()))
    return wl


def run(tier):
    ck = common.Check("C16", tier)
    ck.rule = ("inputs: mutated valid inputs + free-form attribute soup over all 40 instruction names x argument pool, valid inputs of all families, fault-injected inputs, repeat "
               "blocks; monitor = catch_unwind + process-death detection on both back-ends. distinct_nontrivial = distinct (status, item kind, normalised diagnostic set "
               "or panic signature) outcomes observed.")
    g = xgen.G(common.rng_for("C16", tier))
    g.allow_unknown_p = 0.06
    wl = workload(g, tier)
    srcs = [w[1] for w in wl]
    hist = {}
    for backend in ("s1", "s2"):
        outs = common.run_x(srcs, backend)
        for (cls, src), o in zip(wl, outs):
            ck.count()
            st = o["status"]
            hist[st] = hist.get(st, 0) + 1
            kind = "enum" if "\nenum " in "\n" + src else "union" if "\nunion " in "\n" + src else "struct"
            if st == "err":
                key = [st, kind, sorted({re.sub(r"'[^']*'|[0-9]+", "_", m)[:60] for m in o["msgs"]})[:6]]
            elif st == "ok":
                key = [st, kind, cls.split(":")[0], o["tokens"].count("impl")]
            else:
                key = [st, kind, psig(o) if st == "panic" else o.get("msg", "")[:40]]
            ck.cell(key)
            if st == "panic":
                # an otherwise valid input with one documented misuse must end in that misuse's diagnostic: a panic there is identified by
                # the misuse class as well as by the site (a new route to a site already listed is a different finding)
                ck.violation(psig(o) + (f"|{cls}" if cls.startswith("single_fault:") else ""), dict(input=src, backend=backend, workload=cls, panic=common.brief(o)))
            elif st == "abort":
                ck.violation(f"abort|rc={o.get('rc')}", dict(input=src, backend=backend, workload=cls, outcome=o))
            elif st not in ("ok", "err", "input_unparsable"):
                ck.note_inconclusive(f"driver status {st}")
            if len(ck.samples) < 4 and st == "err" and cls == "soup" and len(o["msgs"]) > 2:
                ck.sample(dict(input=src, outcome=common.brief(o)))
    ck.extra["status_histogram"] = hist
    ck.extra["input_unparsable_note"] = "inputs syn itself cannot parse as an item never reach derive (rustc would reject them first); they are not counted as evidence"
    if tier == "thorough":
        try:
            from vlib import fuzzrun
            fuzzrun.campaign(ck)
        except ImportError:
            ck.note_inconclusive("fuzz campaign module not present")
        miri_slice(ck, [w[1] for w in wl if (w[0] in ("valid", "faulty", "finding_witness") or w[0].startswith("single_fault"))][::max(1, len(wl) // 2000)][:96])
    if tier == "thorough":
        from vlib import cov
        cov.report(ck, "C16", srcs)
    return ck.finish()


def miri_slice(ck, srcs, shards=16):
    """UB / leak monitor on the expander itself (syn and proc_macro2 contain `unsafe`): a slice of the workload is executed
    under Miri. A Miri diagnostic is an abnormal end of expansion; a clean run is reported as a count, not as memory safety."""
    import json
    import subprocess
    from concurrent.futures import ThreadPoolExecutor
    crate = common.harness_dir("xdrv")
    tgt = common.os.path.join(common.WORK, "tgt-miri")
    parts = [srcs[i::shards] for i in range(shards)]

    def one(part):
        reqs = [json.dumps({"id": i, "src": s, "reps": 0, "notext": True}) for i, s in enumerate(part)]
        if not reqs:
            return part, [], ""
        try:
            p = subprocess.run(["cargo", "+nightly", "miri", "run", "--offline", "--features", "s1", "--target-dir", tgt, "--"] + reqs, cwd=crate, env=dict(common.ENV),
                               stdout=subprocess.PIPE, stderr=subprocess.PIPE, timeout=3000)
        except subprocess.TimeoutExpired:
            return part, None, "timeout"
        outs = [json.loads(l) for l in p.stdout.decode().split("\n") if l.strip().startswith("{")]
        return part, outs, p.stderr.decode("utf-8", "replace")
    done = 0
    # first shard alone so that the Miri sysroot / dependency build is not raced
    results = [one(parts[0])]
    with ThreadPoolExecutor(max_workers=8) as ex:
        results += list(ex.map(one, parts[1:]))
    for part, outs, err in results:
        if outs is None:
            ck.note_inconclusive("miri shard timed out")
            continue
        done += len(outs)
        for o in outs:
            ck.count()
            if o["status"] == "panic":
                ck.violation(psig(o), dict(input=part[o["id"]], workload="miri", panic=common.brief(o)))
        if len(outs) < len(part):
            m = re.search(r"error: (Undefined Behavior[^\n]*|memory leaked[^\n]*|[^\n]*)", err)
            culprit = part[len(outs)] if len(outs) < len(part) else ""
            ck.violation("miri|" + (m.group(1)[:80] if m else "abnormal end"), dict(input=culprit, miri=err[-1500:]))
    ck.extra["miri_slice"] = {"inputs": len(srcs), "completed": done, "note": "interpreted with stacked-borrows / leak checks on; reported as a count, not as memory safety"}
