"""C13 - #[o2o(..)] spellings generate the same code as bare attributes (same accept/reject)."""
from vlib import common, xgen, xform, faults
from checks.c19 import multi_fault_items


def run(tier):
    ck = common.Check("C13", tier)
    ck.rule = ("each input (valid, single-fault and multi-fault) is rendered all-bare, each-wrapped, maximally grouped and in two random mixed spellings/groupings; "
               "all five must give token-identical expansions or all be rejected. distinct_nontrivial = distinct (instruction name, level, spelling) triples "
               "that occurred in a compared pair whose input has >=3 instructions.")
    g = xgen.G(common.rng_for("C13", tier))
    g.allow_unknown_p = 0.06
    nvalid, nfault = (500, 300) if tier == "quick" else (14000, 8000)
    items = [xgen.gen(g) for _ in range(nvalid)] + multi_fault_items(g, nfault, 1, 3)
    # under #[o2o(allow_unknown)] a bare instruction o2o cannot place (it may be somebody else's attribute) is tolerated; it stays bare in every
    # variant (it has no other spelling) while everything around it is re-spelled: tolerance must not depend on how the *other* instructions are written
    from vlib.model import Instr
    for _ in range(nvalid // 5):
        it = xgen.gen(g)
        it.attrs = [a for a in it.attrs if a.kind != "allow_unknown"]
        it.attrs.insert(0, Instr("allow_unknown", "allow_unknown"))
        stray_type = g.pick(["ghost({k()})", "parent(x, y)", "child(p)", "literal(1)", "as_type(i64)"])
        stray_member = g.pick(["where_clause(T: Clone)", "child_parents(p: T)", "ghosts(g: {k()})"])
        if g.chance(0.5):
            it.attrs.insert(g.r.randint(1, len(it.attrs)), Instr("foreign", "foreign", text=stray_type))
        members = it.fields if it.kind == "struct" else it.variants
        if members and g.chance(0.6):
            m = g.pick(members)
            m.attrs.insert(g.r.randint(0, len(m.attrs)), Instr("foreign", "foreign", text=stray_member))
        it.meta["tolerated_strays"] = True
        items.append(it)
    for _ in range(nvalid // 10):
        # allow_unknown silences *unknown* attributes, not o2o's own instructions with arguments that do not parse
        it = xgen.gen(g)
        it.attrs = [a for a in it.attrs if a.kind != "allow_unknown"]
        it.attrs.insert(0, Instr("allow_unknown", "allow_unknown"))
        members = it.fields if it.kind == "struct" else it.variants
        if not members:
            continue
        m = g.pick(members)
        nm, args = g.pick([("child", ""), ("type_hint", "as []"), ("map", ", ,"), ("ghost", "A| |"), ("parent", "[map] x"), ("as_type", ""), ("literal", ""), ("pattern", "")])
        m.attrs.insert(g.r.randint(0, len(m.attrs)), Instr(nm, "raw", args=args))
        items.append(it)
    for _ in range(nvalid // 10):
        # an own member instruction without arguments (`#[from]`, `#[into]`, `#[map]`: "the default path") stays an o2o instruction under
        # allow_unknown in every spelling; written first, it is the default instruction for its kinds and a later `#[map(other)]` only serves the rest
        it = xgen.gen(g, g.pick(["struct_basic", "enum_basic"]))
        it.attrs = [a for a in it.attrs if a.kind != "allow_unknown"]
        it.attrs.insert(0, Instr("allow_unknown", "allow_unknown"))
        members = it.fields if it.kind == "struct" else [f for v in it.variants for f in v.fields]
        members = [m for m in members if not m.attrs]
        if not members:
            continue
        m = g.pick(members)
        m.attrs = [Instr(g.pick(["from", "into", "map", "from_owned", "ref_into"]), "raw", args=None), Instr("map", "map", container=None, member=(f"m{g.mark()}" if getattr(m, "name", None) is not None else 0), action=None)]
        items.append(it)
    modes = ["bare", "o2o", "grouped", "mixed", "mixed"]
    variants = [[xform.respell(it, g, m) for m in modes] for it in items]
    srcs = [v.render() for vs in variants for v in vs]
    for backend in ("s1", "s2"):
        outs = common.run_x(srcs, backend)
        for i, it in enumerate(items):
            os_ = outs[i * len(modes):(i + 1) * len(modes)]
            base = os_[0]
            ninstr = sum(len(l) for _, _, l in it.all_attr_lists())
            for j in range(1, len(modes)):
                ck.count()
                for level, _, lst in variants[i][j].all_attr_lists():
                    for ins in lst:
                        if ins.kind != "foreign":
                            ck.cell([ins.name, level, ins.spelling + ("+grp" if ins.group is not None else "")], nontrivial=ninstr >= 3)
                d = common.diff_outcomes(base, os_[j], "tok")
                if d is None:
                    continue
                # shrink: which single instruction's re-spelling makes the difference?
                culprits = shrink(it, variants[i][j], base, backend)
                sig = f"spelling|{d}|{','.join(culprits) or 'combination'}"
                w = dict(bare=variants[i][0].render(), respelled=variants[i][j].render(), mode=modes[j], backend=backend, bare_outcome=common.brief(base), respelled_outcome=common.brief(os_[j]))
                if d == "tokens":
                    w["first_difference"] = common.first_token_diff(base["tokens"], os_[j]["tokens"])
                ck.violation(sig, w)
            if len(ck.samples) < 3 and ninstr >= 4:
                ck.sample(dict(bare=variants[i][0].render(), mixed=variants[i][3].render(), outcome=common.brief(base), backend=backend))
    if tier == "thorough":
        from vlib import cov
        cov.report(ck, "C13", srcs)
    return ck.finish()


def shrink(item, respelled, base_out, backend):
    """re-spell one instruction at a time (keeping the others bare) and see which alone reproduces a difference"""
    cands = []
    flat_b = [ins for _, _, l in xform.respell(item, None, "bare").all_attr_lists() for ins in l]
    flat_r = [ins for _, _, l in respelled.all_attr_lists() for ins in l]
    for idx, (b, r) in enumerate(zip(flat_b, flat_r)):
        if r.kind == "foreign" or (r.spelling == b.spelling):
            continue
        v = xform.respell(item, None, "bare")
        fl = [ins for _, _, l in v.all_attr_lists() for ins in l]
        fl[idx].spelling = "o2o"
        cands.append((f"{r.name}", v.render()))
    if not cands:
        return []
    outs = common.run_x([c[1] for c in cands], backend)
    return sorted({n for (n, _), o in zip(cands, outs) if common.diff_outcomes(base_out, o, "tok")})
