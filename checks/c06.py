"""C06 - impls for one counterpart are independent of the other counterparts."""
from vlib import common, xgen, xform
from vlib.model import Instr


def impls_by_cp(tokens):
    res = {}
    for h, b in common.split_items(tokens):
        info = common.header_info(h)
        k = xform.cpkey(info["counterpart"]) if info.get("ok") else "?"
        res.setdefault(k, []).append(tuple(h) + tuple(b))
    return res


def enrich(g, it):
    """add dedicated instructions with different content per counterpart"""
    cps = it.meta["cps"]
    r = g.r
    named = it.kind == "enum" or it.shape == "named"
    for c in cps:
        if g.chance(0.35):
            k = g.mark()
            if it.kind == "struct":
                if any(a.kind == "ghosts" and a.container() == c for a in it.attrs):
                    continue
                it.attrs.append(Instr(r.choice(["ghosts", "ghosts_owned", "ghosts_ref"]), "ghosts", container=c,
                                      entries=[dict(path=None, ident=(f"g{k}" if named else 7 + cps.index(c)), action=f"k{k}()")]))
            else:
                form = r.choice(["unit", "destr_t", "destr_n"])
                e = dict(path=None, ident=f"X{k}", action=f"k{k}()") if form == "unit" else dict(path=None, ident=None, destr=(f"X{k}(..)" if form == "destr_t" else f"X{k} {{ .. }}"), action=f"k{k}()")
                it.attrs.append(Instr("ghosts", "ghosts", container=c, entries=[e]))
        if g.chance(0.2) and it.generics == "":
            it.generics = "<T>"
        if it.generics and g.chance(0.5) and not any(a.kind == "where_clause" and a.container() == c for a in it.attrs):
            it.attrs.append(Instr("where_clause", "where_clause", container=c, preds=f"T: W{g.mark()}"))
    members = it.fields if it.kind == "struct" else it.variants
    # counterparts a tuple struct addresses by field name (`as {}`): any further mapping instruction would have to name the field, too
    by_name = {t.f["ty"] for t in it.attrs if t.kind == "trait" and t.f.get("hint") == "{}"} if (it.kind == "struct" and it.shape == "tuple") else set()
    for m in members:
        for c in cps:
            if not g.chance(0.25) or c in by_name:
                continue
            k = g.mark()
            if it.kind == "struct":
                roll = r.random()
                if roll < 0.5:
                    m.attrs.append(Instr(r.choice(["map", "from", "into", "into_existing", "try_map"]), "map", container=c, member=(f"m{k}" if named else None), action=f"k{k}(~)"))
                elif roll < 0.7:
                    m.attrs.append(Instr(r.choice(["ghost", "ghost_owned", "ghost_ref"]), "ghost", container=c, action=f"k{k}()", braced=True))
                elif roll < 0.85:
                    m.attrs.append(Instr("parent", "parent", container=c, fields=None))
                else:
                    m.attrs.append(Instr("as_type", "as_type", container=c, member=None, ty=r.choice(["i64", "u8"])))
            else:
                roll = r.random()
                if roll < 0.4:
                    m.attrs.append(Instr(r.choice(["map", "from", "into"]), "map", container=c, member=f"M{k}", action=None))
                elif roll < 0.6 and m.shape != "unit":
                    m.attrs.append(Instr("ghosts", "ghosts", container=c, entries=[dict(path=None, ident=(f"g{k}" if m.shape == "named" else len(m.fields) + cps.index(c)), action=f"k{k}()")]))
                elif roll < 0.8 and not any(a.kind == "type_hint" and a.container() == c for a in m.attrs):
                    m.attrs.append(Instr("type_hint", "type_hint", container=c, hint=r.choice(["()", "{}"]) if m.shape != "tuple" else "()"))
                else:
                    m.attrs.append(Instr(r.choice(["ghost", "ghost_owned"]), "ghost", container=c, action=f"k{k}()", braced=True))
    return it


def run(tier):
    ck = common.Check("C06", tier)
    ck.rule = ("types mapped to 2-3 counterparts with dedicated and default instructions of every kind, different per counterpart; for each counterpart A the impls "
               "for A in the joint expansion must be token-identical to the expansion of the input projected to A. distinct_nontrivial = distinct "
               "(struct|enum, family, sorted set of instruction kinds dropped by the projection).")
    g = xgen.G(common.rng_for("C06", tier))
    n = 1500 if tier == "quick" else 20000
    joints = []
    profs = ["struct_basic", "struct_basic", "struct_children", "enum_basic", "enum_basic", "enum_prim", "struct_parents", "struct_unit", "struct_mixed_nests"]
    while len(joints) < n:
        p = g.pick(profs)
        it = xgen.PROFILES[p](g) if p in ("struct_parents", "enum_prim", "struct_unit", "struct_mixed_nests") else xgen.PROFILES[p](g, n_cp=g.pick([2, 2, 3]))
        it.meta["profile"] = p
        if len(it.meta["cps"]) < 2:
            continue
        if p in ("struct_basic", "enum_basic"):
            enrich(g, it)
        joints.append(it)
    pairs = []
    for it in joints:
        for cp in it.meta["cps"]:
            pr, dropped = xform.project(it, cp)
            pairs.append((it, cp, pr, dropped))
    jsrc = [it.render() for it in joints]
    psrc = [p[2].render() for p in pairs]
    for backend in ("s1", "s2"):
        jo = dict(zip(map(id, joints), common.run_x(jsrc, backend)))
        po = common.run_x(psrc, backend)
        viol = []
        for (it, cp, pr, dropped), o in zip(pairs, po):
            ck.count()
            j = jo[id(it)]
            kinds = sorted({d[0] if d[0] != "trait" else "trait" for d in dropped})
            ck.cell([it.kind, it.meta["profile"], kinds], nontrivial=len(kinds) >= 2)
            d = compare(j, o, cp)
            if d is None:
                if len(ck.samples) < 3 and len(kinds) >= 3:
                    ck.sample(dict(joint=it.render(), counterpart=cp, projection=pr.render(), backend=backend, outcome=common.brief(o)))
                continue
            viol.append((it, cp, pr, dropped, j, o, d))
        for it, cp, pr, dropped, j, o, d in viol[:150]:
            culprits = shrink(it, cp, j, backend)
            sig = f"crosstalk|{d[0]}|{it.kind}|{','.join(culprits) or 'combination'}"
            ck.violation(sig, dict(joint=it.render(), counterpart=cp, projection=pr.render(), backend=backend, joint_outcome=common.brief(j), projection_outcome=common.brief(o), difference=d[1], culprits=culprits))
    specificity(ck, g, tier)
    if tier == "thorough":
        from vlib import cov
        cov.report(ck, "C06", jsrc)
    return ck.finish()


def compare(j, o, cp):
    cj, co = common.status_class(j), common.status_class(o)
    if cj != co:
        return (f"verdict:{cj}/{co}", None)
    if cj != "accept":
        return None
    a = impls_by_cp(j["tokens"]).get(xform.cpkey(cp), [])
    b = [tuple(h) + tuple(bd) for h, bd in common.split_items(o["tokens"])]
    if a != b:
        for x, y in zip(a, b):
            if x != y:
                return ("tokens", common.first_token_diff(list(x), list(y)))
        return ("impl_count", {"joint": len(a), "projection": len(b)})
    return None


def shrink(it, cp, j, backend):
    """which single instruction of another counterpart, when removed from the joint input, changes A's impls?"""
    k = xform.cpkey(cp)
    cands = []
    idx = 0
    flat = [(lvl, l, i) for lvl, _, l in it.all_attr_lists() for i in range(len(l))]
    for n, (lvl, l, i) in enumerate(flat):
        ins = l[i]
        other = (ins.kind == "trait" and xform.cpkey(ins.f["ty"]) != k) or (ins.kind not in ("trait", "foreign", "raw", "repeat", "skip_repeat", "stop_repeat") and ins.container() is not None and xform.cpkey(ins.container()) != k)
        if not other or ins.kind == "trait":
            continue
        v = it.copy()
        fl = [(lvl2, l2, i2) for lvl2, _, l2 in v.all_attr_lists() for i2 in range(len(l2))]
        _, l2, i2 = fl[n]
        del l2[i2]
        cands.append((f"{ins.name}@{lvl}", v.render()))
    if not cands or j["status"] != "ok":
        return []
    outs = common.run_x([c[1] for c in cands], backend)
    base = impls_by_cp(j["tokens"]).get(k, [])
    return sorted({nm for (nm, _), o in zip(cands, outs) if o["status"] != "ok" or impls_by_cp(o["tokens"]).get(k, []) != base})


# ---------------------------------------------------------------------------------------------------------------
# dedicated beats default, whatever the order (anchors: "dedicated-then-default" lookups of every instruction kind)

def _spec_case(g, kind, cps=("A", "B")):
    """returns (item_builder(DE_order, mode) -> Item) for one instruction kind; mode: joint | only_e_default | only_d"""
    from vlib.model import Field, Variant, Item
    k1, k2 = g.mark(), g.mark()
    A, B = cps

    def tr(names, enum=False):
        return [Instr(n, "trait", ty=c, hint=None, err=("E" if "try" in n else None), params=[]) for c in (A, B) for n in names]

    def pick(d, e, order, mode):
        if mode == "only_d":
            return [d]
        if mode == "only_e_default":
            e2 = e.copy()
            if d.container() is None:
                e2.f["container"] = None
            return [e2]
        return [d, e] if order == 0 else [e, d]

    def build(order, mode):
        noise = []
        if kind == "member_map":
            d = Instr("map", "map", container=None, member=f"m{k1}", action=f"k{k1}(~)")
            e = Instr("map", "map", container=A, member=f"m{k2}", action=f"k{k2}(~)")
            it = Item("struct", "S", shape="named", attrs=tr(["map", "into_existing", "try_map"]))
            it.fields = [Field("pre", "i32"), Field("f", "i32", pick(d, e, order, mode)), Field("post", "i32")]
        elif kind == "ghost":
            d = Instr("ghost", "ghost", container=None, action=f"k{k1}()", braced=True)
            e = Instr("ghost", "ghost", container=A, action=f"k{k2}()", braced=True)
            it = Item("struct", "S", shape="named", attrs=tr(["map"]))
            it.fields = [Field("pre", "i32"), Field("f", "i32", pick(d, e, order, mode))]
        elif kind == "ghosts":
            d = Instr("ghosts", "ghosts", container=None, entries=[dict(path=None, ident=f"g{k1}", action=f"k{k1}()")])
            e = Instr("ghosts", "ghosts", container=A, entries=[dict(path=None, ident=f"g{k2}", action=f"k{k2}()")])
            it = Item("struct", "S", shape="named", attrs=tr(["map", "into_existing"]) + pick(d, e, order, mode))
            it.fields = [Field("pre", "i32")]
        elif kind == "child":
            d = Instr("child", "child", container=None, path=f"p{k1}")
            e = Instr("child", "child", container=A, path=f"p{k2}")
            cp = Instr("child_parents", "child_parents", container=None, entries=[dict(path=f"p{k1}", ty="T1", hint=None), dict(path=f"p{k2}", ty="T2", hint=None)])
            it = Item("struct", "S", shape="named", attrs=tr(["map", "into_existing"]) + [cp])
            it.fields = [Field("pre", "i32"), Field("f", "i32", pick(d, e, order, mode))]
        elif kind == "child_parents":
            d = Instr("child_parents", "child_parents", container=None, entries=[dict(path="p", ty=f"T{k1}", hint=None)])
            e = Instr("child_parents", "child_parents", container=A, entries=[dict(path="p", ty=f"T{k2}", hint=None)])
            it = Item("struct", "S", shape="named", attrs=tr(["map"]) + pick(d, e, order, mode))
            it.fields = [Field("pre", "i32"), Field("f", "i32", [Instr("child", "child", container=None, path="p")])]
        elif kind == "parent":
            d = Instr("parent", "parent", container=None, fields=f"x{k1}, y{k1}")
            e = Instr("parent", "parent", container=A, fields=f"x{k2}, y{k2}")
            it = Item("struct", "S", shape="named", attrs=tr(["into", "into_existing"]))
            it.fields = [Field("pre", "i32"), Field("p", "P", pick(d, e, order, mode))]
        elif kind == "parent_bare_vs_params":
            # both dedicated: o2o treats the bare and the parameterised form as two facilities, each with its own default
            d = Instr("parent", "parent", container=B, fields=f"x{k1}, y{k1}")
            e = Instr("parent", "parent", container=A, fields=None)
            it = Item("struct", "S", shape="named", attrs=tr(["into", "into_existing", "from"]))
            it.fields = [Field("pre", "i32"), Field("p", "P", pick(d, e, order, mode))]
        elif kind == "parent_params_vs_bare":
            d = Instr("parent", "parent", container=B, fields=None)
            e = Instr("parent", "parent", container=A, fields=f"x{k2}, y{k2}")
            it = Item("struct", "S", shape="named", attrs=tr(["into", "into_existing", "from"]))
            it.fields = [Field("pre", "i32"), Field("p", "P", pick(d, e, order, mode))]
        elif kind == "parent_default_bare_vs_params":
            # a default bare #[parent] next to a parameterised one dedicated to A: the dedicated one has to win for A, the default one serves B
            d = Instr("parent", "parent", container=None, fields=None)
            e = Instr("parent", "parent", container=A, fields=f"x{k2}, y{k2}")
            it = Item("struct", "S", shape="named", attrs=tr(["into", "into_existing", "from"]))
            it.fields = [Field("pre", "i32"), Field("p", "P", pick(d, e, order, mode))]
        elif kind == "parent_default_params_vs_bare":
            d = Instr("parent", "parent", container=None, fields=f"x{k1}, y{k1}")
            e = Instr("parent", "parent", container=A, fields=None)
            it = Item("struct", "S", shape="named", attrs=tr(["into", "into_existing", "from"]))
            it.fields = [Field("pre", "i32"), Field("p", "P", pick(d, e, order, mode))]
        elif kind == "where_clause":
            d = Instr("where_clause", "where_clause", container=None, preds=f"T: W{k1}")
            e = Instr("where_clause", "where_clause", container=A, preds=f"T: W{k2}")
            it = Item("struct", "S", shape="named", generics="<T>", attrs=tr(["map", "into_existing"]) + pick(d, e, order, mode))
            it.fields = [Field("t", "T")]
        elif kind in ("literal", "pattern"):
            if kind == "literal":
                d = Instr("literal", "literal", container=None, tokens=str(1000 + k1))
                e = Instr("literal", "literal", container=A, tokens=str(1000 + k2))
                names = ["map_owned", "from_ref"]
            else:
                d = Instr("pattern", "pattern", container=None, tokens=f"{1000 + k1}..={1010 + k1}")
                e = Instr("pattern", "pattern", container=A, tokens=f"{1000 + k2}..={1010 + k2}")
                names = ["from_owned", "from_ref", "try_from_owned"]
            it = Item("enum", "S", attrs=[Instr(n, "trait", ty=c, hint=None, err=("E" if "try" in n else None), params=[("default", "=> dflt()")]) for c in (A, B) for n in names])
            it.variants = [Variant("U", attrs=[Instr("literal", "literal", container=None, tokens="1")]), Variant("V", attrs=pick(d, e, order, mode))]
        elif kind == "type_hint":
            d = Instr("type_hint", "type_hint", container=None, hint="()")
            e = Instr("type_hint", "type_hint", container=A, hint="Unit")
            it = Item("enum", "S", attrs=tr(["owned_into", "ref_into", "owned_try_into"]))
            it.variants = [Variant("U"), Variant("V", "named", [Field("x", "i32"), Field("y", "u8")], pick(d, e, order, mode))]
        elif kind == "variant_ghosts":
            d = Instr("ghosts", "ghosts", container=None, entries=[dict(path=None, ident=f"g{k1}", action=f"k{k1}()")])
            e = Instr("ghosts", "ghosts", container=A, entries=[dict(path=None, ident=f"g{k2}", action=f"k{k2}()")])
            it = Item("enum", "S", attrs=tr(["map"]))
            it.variants = [Variant("U"), Variant("V", "named", [Field("x", "i32")], pick(d, e, order, mode))]
        elif kind == "enum_ghosts":
            d = Instr("ghosts", "ghosts", container=None, entries=[dict(path=None, ident=f"X{k1}", action=f"k{k1}()")])
            e = Instr("ghosts", "ghosts", container=A, entries=[dict(path=None, ident=f"X{k2}", action=f"k{k2}()")])
            it = Item("enum", "S", attrs=tr(["map"]) + pick(d, e, order, mode))
            it.variants = [Variant("U"), Variant("V", "tuple", [Field(None, "i32")])]
        elif kind == "variant_map":
            d = Instr("map", "map", container=None, member=f"M{k1}", action=None)
            e = Instr("map", "map", container=A, member=f"M{k2}", action=None)
            it = Item("enum", "S", attrs=tr(["map", "try_map"]))
            it.variants = [Variant("U"), Variant("V", "tuple", [Field(None, "i32")], pick(d, e, order, mode))]
        else:
            raise ValueError(kind)
        return it
    return build


SPEC_KINDS = ["member_map", "ghost", "ghosts", "child", "child_parents", "parent", "where_clause", "literal", "pattern", "type_hint", "variant_ghosts", "enum_ghosts", "variant_map",
              "parent_bare_vs_params", "parent_params_vs_bare", "parent_default_bare_vs_params", "parent_default_params_vs_bare"]
SPEC_CPS = [("A", "B"), ("A", "B"), ("G<i32>", "G<u8>"), ("m::C", "n::C"), ("Q<'x, u8>", "Q<'y, u8>"), ("B", "A")]


def specificity(ck, g, tier):
    reps = 4 if tier == "quick" else 60
    cases = []
    for kind in SPEC_KINDS:
        for _ in range(reps):
            cps = g.pick(SPEC_CPS)
            if kind in ("literal", "pattern") and cps[0] not in ("A", "B"):
                cps = ("A", "B")
            b = _spec_case(g, kind, cps)
            cases.append((kind, cps, [b(0, "joint"), b(1, "joint"), b(0, "only_e_default"), b(0, "only_d")]))
    srcs = [it.render() for _, _, vs in cases for it in vs]
    for backend in ("s1", "s2"):
        outs = common.run_x(srcs, backend)
        for i, (kind, cps, vs) in enumerate(cases):
            o = outs[4 * i:4 * i + 4]
            ck.count()
            ck.cell(["specificity", kind, "same_path" if cps[0] not in ("A", "B") else "distinct"])
            KA, KB = xform.cpkey(cps[0]), xform.cpkey(cps[1])
            if any(x["status"] != "ok" for x in o):
                bad = next(x for x in o if x["status"] != "ok")
                ck.violation(f"specificity|not_accepted|{kind}|{common.panic_sig(bad) if bad['status'] == 'panic' else bad['status']}", dict(inputs=[v.render() for v in vs], outcome=common.brief(bad), backend=backend))
                continue
            im = [impls_by_cp(x["tokens"]) for x in o]
            a = [m.get(KA, []) for m in im]
            b = [m.get(KB, []) for m in im]
            if a[0] == im[3].get(KA, []) or not a[0] or not b[0]:
                ck.violation(f"specificity|dedicated_has_no_effect|{kind}", dict(inputs=[v.render() for v in vs], note="the dedicated instruction changed nothing in its own counterpart's impls"))
                continue
            what = None
            if a[0] != a[1] or b[0] != b[1]:
                what = "order_dependent"
            elif a[0] != a[2]:
                what = "dedicated_does_not_win_for_its_counterpart"
            elif b[0] != b[3]:
                what = "dedicated_leaks_or_default_lost_for_other_counterpart"
            if what:
                ck.violation(f"specificity|{what}|{kind}", dict(default_then_dedicated=vs[0].render(), dedicated_then_default=vs[1].render(), backend=backend))
