"""C17 - accepted inputs expand to syntactically valid impl items of the right shape.

Every Ok outcome of a broad workload (valid inputs of all families in all spellings, and 'odd but accepted' inputs:
structure-level mutations that keep embedded fragments well-formed) is re-parsed by an independent parser (xan, syn 2
`full`) and each item's trait, method, signature and associated type are inspected.
"""
import re
from vlib import common, xgen, soup, xform
from vlib.model import kinds_of

CORE = {"From": "from", "TryFrom": "try_from", "Into": "into", "TryInto": "try_into"}
O2O = {"IntoExisting": "into_existing", "TryIntoExisting": "try_into_existing"}


def nz(s):
    return re.sub(r"\s+", "", s or "")


def check_item(item):
    """returns None or a short description of what is wrong with one impl item"""
    if item["kind"] != "impl":
        return "item_not_impl"
    nm = item["trait_name"]
    if nm in CORE:
        if item["trait_segs"] != ["core", "convert", nm] or not item["trait_leading_colon"]:
            return "trait_path"
        fn = CORE[nm]
    elif nm in O2O:
        if item["trait_segs"] != ["o2o", "traits", nm]:
            return "trait_path"
        fn = O2O[nm]
    else:
        return "not_one_of_the_six_traits"
    if item["negative"] or item["unsafe"] or item["default"]:
        return "impl_modifiers"
    fallible = nm.startswith("Try")
    fns = [s for s in item["items"] if s["kind"] == "fn"]
    tys = [s for s in item["items"] if s["kind"] == "type"]
    others = [s for s in item["items"] if s["kind"] == "other"]
    if others or len(fns) != 1:
        return "method_set"
    if fallible and (len(tys) != 1 or tys[0]["name"] != "Error"):
        return "error_assoc_type"
    if not fallible and tys:
        return "error_assoc_type"
    f = fns[0]
    if f["name"] != fn or f["unsafe"] or f["async"] or f["const"] or nz(f["generics"]):
        return "method_name_or_qualifiers"
    arg = nz(item["trait_args"][0]) if len(item["trait_args"]) == 1 else None
    if arg is None:
        return "trait_args"
    self_full = ("&" + (item["self_lt"] or "") if item["self_ref"] else "") + nz(item["self_ty"])
    err = nz(tys[0]["ty"]) if fallible else None
    ins = f["inputs"]
    out = nz(f["output"])
    base = nm[3:] if fallible else nm
    if base == "From":
        if len(ins) != 1 or ins[0]["receiver"] or nz(ins[0]["pat"]) != "value" or nz(ins[0]["ty"]) != arg:
            return "signature_inputs"
        want = self_full if not fallible else f"::core::result::Result<{self_full},{err}>"
        if out != want or item["self_ref"]:
            return "signature_output"
    elif base == "Into":
        if len(ins) != 1 or not ins[0]["receiver"] or ins[0]["ref"] or ins[0]["mut"]:
            return "signature_inputs"
        want = arg if not fallible else f"::core::result::Result<{arg},{err}>"
        if out != want:
            return "signature_output"
    else:
        if len(ins) != 2 or not ins[0]["receiver"] or ins[0]["ref"] or ins[1]["receiver"] or nz(ins[1]["pat"]) != "other" or nz(ins[1]["ty"]) != "&mut" + arg:
            return "signature_inputs"
        want = "" if not fallible else f"::core::result::Result<(),{err}>"
        if out != want:
            return "signature_output"
    return None


def impl_features(it, info):
    """features of the trait instruction (and of the type) that produced one impl: the root-cause signature of a
    malformed impl is (struct|enum, kind, params of that instruction, hint, post-init?, ...)"""
    from vlib.model import kinds_of, is_fallible_name
    kind = info.get("kind", "?")                      # from_owned, into_ref, into_existing_owned, ...
    base = {"from_owned": "from_owned", "from_ref": "from_ref", "into_owned": "owned_into", "into_ref": "ref_into",
            "into_existing_owned": "owned_into_existing", "into_existing_ref": "ref_into_existing"}.get(kind, kind)
    cp = xform.cpkey(info.get("counterpart", []))
    feats = []
    tr = None
    for a in it.attrs:
        if a.kind == "trait" and xform.cpkey(a.f["ty"]) == cp and base in kinds_of(a.name) and is_fallible_name(a.name) == info.get("fallible"):
            tr = a
            break
    if tr is not None:
        ps = sorted({p[0] for p in (tr.f.get("params") or []) if p[0] in ("update", "return", "default")})
        feats += ps
        if tr.f.get("hint"):
            feats.append("hint" + tr.f["hint"])

    def applies(a):
        c = a.container()
        return c is None or xform.cpkey(c) == cp
    ms = it.fields if it.kind == "struct" else it.variants
    if any(a.kind == "parent" and a.f.get("fields") is None and applies(a) for m in ms for a in m.attrs):
        feats.append("parent_bare")
    if any(a.kind == "parent" and a.f.get("fields") is not None and applies(a) for m in ms for a in m.attrs):
        feats.append("parent_args")
    if any(a.kind == "child" and applies(a) for m in ms for a in m.attrs):
        feats.append("child")
    gh = [a for a in it.attrs if a.kind == "ghosts" and applies(a)]
    if gh:
        idx = any(isinstance(e.get("ident"), int) for a in gh for e in a.f["entries"])
        pth = any(e.get("path") for a in gh for e in a.f["entries"])
        feats.append("ghosts" + ("_idx" if idx else "") + ("_path" if pth else ""))
    if it.kind == "struct":
        feats.append(it.shape)
    base_cls = "existing" if "existing" in base else "from" if base.startswith("from") else "into"
    # coarse root-cause classes (first match) for combinations validation lets through although no fragment dialect exists for them
    if it.kind == "enum" and base_cls == "existing":
        feats = ["<enum_into_existing>"]
    elif it.kind == "enum" and base_cls == "into" and any(any(a.kind == "map" and isinstance(a.f.get("member"), int) and a.f.get("action") is None and applies(a) for a in v.attrs) for v in it.variants):
        feats = ["<variant_into_index>"]
    elif base_cls == "existing" and "update" in feats:
        feats = ["<update_on_into_existing>"]
    elif "parent_bare" in feats and "return" in feats and base_cls != "from":
        feats = ["<return_with_bare_parent>"]
    elif "parent_bare" in feats and "update" in feats and base_cls != "from":
        feats = ["<update_with_bare_parent>"]
    elif "parent_bare" in feats and any(f.startswith("ghosts") for f in feats) and base_cls == "into":
        feats = ["<ghosts_with_bare_parent>"]
    elif "parent_bare" in feats and "child" in feats and base_cls == "into":
        feats = ["<child_with_bare_parent>"]
    elif "parent_bare" in feats and "tuple" in feats and base_cls == "into":
        feats = ["<bare_parent_in_tuple_struct>"]
    return "existing" if "existing" in base else base.split("_")[0] if base.startswith("from") else "into", feats


def run(tier):
    ck = common.Check("C17", tier)
    ck.rule = ("every accepted input of: valid inputs (all families, all spellings) and 'odd but accepted' inputs (each instruction drawn from its own documented grammar, but "
               "hints / params / shapes / combinations incoherent; structure mutations within one level); the Ok token stream is re-parsed as a Rust file by syn 2 `full` and each "
               "item checked: impl of one of the six traits through the documented path, exactly one fn with the trait's name and documented signature, `type Error` iff "
               "fallible. distinct_nontrivial = distinct (struct|enum, kind class, params/hint/post-init features of the producing instruction) over checked impls.")
    g = xgen.G(common.rng_for("C17", tier))
    nvalid, nodd = (1500, 6000) if tier == "quick" else (40000, 200000)
    items = [xform.respell(xgen.gen(g), g, g.pick(["bare", "mixed"])) for _ in range(nvalid)]
    def coherent(it):
        # a unit struct says nothing about the counterpart's form: an Into instruction that has ghosts to place needs a hint (README "Unit structs");
        # a mutation that re-targets the ghosts to a hint-less counterpart leaves the documented domain
        if it.kind == "struct" and it.shape == "unit":
            for t in it.attrs:
                if t.kind == "trait" and not t.f.get("hint") and any(k in ("owned_into", "ref_into") for k in kinds_of(t.name)):
                    if any(a.kind == "ghosts" and a.f.get("entries") and (a.container() is None or xform.cpkey(a.container()) == xform.cpkey(t.f["ty"])) for a in it.attrs):
                        return False
        # struct-level ghosts name the counterpart's members: by identifier for a field-named counterpart, by index for a positional one.
        # A mutation that re-targets a ghosts instruction to a counterpart of the other form leaves the documented domain
        if it.kind == "struct":
            for t in it.attrs:
                if t.kind != "trait" or not any(k in ("owned_into", "ref_into") for k in kinds_of(t.name)):
                    continue
                form = {"{}": "named", "()": "tuple"}.get(t.f.get("hint"), it.shape if not t.f.get("hint") else None)
                if form not in ("named", "tuple"):
                    continue
                for a in it.attrs:
                    if a.kind == "ghosts" and (a.container() is None or xform.cpkey(a.container()) == xform.cpkey(t.f["ty"])):
                        for e in a.f.get("entries") or []:
                            if e.get("path") or e.get("ident") is None:
                                continue
                            if (form == "named") != (not str(e["ident"]).isdigit()):
                                return False
        return True
    odd = []
    while len(odd) < nodd:
        x = soup.mutate(g, xgen.gen(g), nmut=g.r.randint(1, 2), safe=True, ops=soup.ODD_OPS)
        if coherent(x):
            odd.append(x)
    items += odd
    srcs = [it.render() for it in items]
    accepted = 0
    for backend in ("s1", "s2"):
        outs = common.run_x(srcs, backend, notext=False)
        idx = [i for i, o in enumerate(outs) if o["status"] == "ok"]
        reps = common.run_xan([outs[i]["text"] for i in idx])
        redo = []
        for i, rep in zip(idx, reps):
            ck.count()
            accepted += 1
            it, src = items[i], srcs[i]
            parts = common.split_items(outs[i]["tokens"])
            infos = [common.header_info(h) for h, _ in parts]
            if rep.get("parse") != "ok":
                redo.append((i, parts, infos))
                continue
            for item, info in zip(rep["items"], infos):
                kc, feats = impl_features(it, info)
                ck.cell([it.kind, kc, feats])
                bad = check_item(item)
                if bad:
                    ck.violation(f"shape|{bad}|{it.kind}|{kc}|{'+'.join(feats)}", dict(input=src, backend=backend, item=item.get("text", "")[:1200]))
            if len(ck.samples) < 3 and len(rep["items"]) >= 3:
                ck.sample(dict(input=src, backend=backend, items=[(x["trait_name"], x["self_ref"], nz(x["trait_args"][0])) for x in rep["items"] if x["kind"] == "impl"]))
        # locate the malformed impl(s) of unparsable outputs
        flat = [(i, k) for i, parts, infos in redo for k in range(len(parts))]
        texts = [common.detok(list(parts[k][0]) + list(parts[k][1])) for i, parts, infos in redo for k in range(len(parts))]
        sub = common.run_xan(texts)
        lookup = {i: (parts, infos) for i, parts, infos in redo}
        for (i, k), r_, t in zip(flat, sub, texts):
            parts, infos = lookup[i]
            kc, feats = impl_features(items[i], infos[k])
            ck.cell([items[i].kind, kc, feats])
            if r_.get("parse") != "ok":
                ck.violation(f"shape|unparsable|{items[i].kind}|{kc}|{'+'.join(feats)}", dict(input=srcs[i], backend=backend, parse_error=r_.get("msg"), impl=t[:1500]))
            else:
                for item in r_["items"]:
                    bad = check_item(item)
                    if bad:
                        ck.violation(f"shape|{bad}|{items[i].kind}|{kc}|{'+'.join(feats)}", dict(input=srcs[i], backend=backend, item=t[:1200]))
    ck.extra["accepted_inputs"] = accepted
    ck.extra["inputs"] = len(srcs) * 2
    if tier == "thorough":
        from vlib import modeeq, cov
        modeeq.audit(ck, g, 90)
        cov.report(ck, "C17", srcs)
    return ck.finish()
