"""C03 - flattened (child / parent) mappings are faithful; each nested struct is built once (level R + X)."""
import re
from vlib import common, xgen, rt, rgen_flat


def run(tier):
    ck = common.Check("C03", tier)
    ck.rule = ("child family: random nesting trees (depth 1-5, branching 1-3, named levels) flattened into S with #[child(path)] fields in tree order / contiguous-but-reordered / "
               "interleaved / prefix-sharing-siblings-separated order, child_parents entries shuffled, path-addressed struct-level ghosts, S-only ghost; parent family: "
               "#[parent(f, [parent(..)] g: G, [map(x)] h)] with typed sub-paths, depth 0-3; bare family: #[parent] fields whose inner types derive their own From<&T> / "
               "IntoExisting<T> with marker constants (routing is visible in the values) and counterpart fields nobody maps (must stay untouched). All 12 kinds, random pre-existing "
               "destination. distinct_nontrivial = distinct (family, depth, branching, permutation class, kind) with depth>=2 or branching>=2.")
    g = xgen.G(common.rng_for("C03", tier))
    n, draws, shards = (150, 4, 4) if tier == "quick" else (3000, 12, 16)
    cases, specs = [], {}
    for i in range(n):
        fc = rgen_flat.gen_case(g, i)
        code, di, df = rgen_flat.render_case(fc, g, draws)
        fc.inputs = {"i": di, "f": df}
        cases.append(rt.Case(i, code, meta=fc, input_text=di))
        specs[i] = fc
    # open finding F34 is exercised on every run, whatever the seed (one fixed program from a stream that does not depend on VERIF_SEED)
    import random
    wg = xgen.G(random.Random(20260927))
    for _ in range(3000):
        fc = rgen_flat.gen_case(wg, n, dict(family="parent"))
        if "parent_tuple_permuted" in getattr(fc, "flags", set()):
            code, di, df = rgen_flat.render_case(fc, wg, draws)
            fc.inputs = {"i": di, "f": df}
            cases.append(rt.Case(n, code, meta=fc, input_text=di))
            specs[n] = fc
            break
    events, rejected = rt.run_sharded("c03-" + tier, cases, "syn1", shards)
    for c in rejected:
        fc = c.meta
        ck.count()
        ck.cell([fc.family, fc.depth, fc.branching, fc.perm, "rustc"], nontrivial=False)
        ck.violation(f"rustc_rejects|{fc.family}|{fc.perm}|{rt.rustc_sig(c.rejected)}", dict(family=fc.family, permutation=fc.perm, input=fc.inputs["i"], rustc=[r["rendered"] for r in c.rejected[:2]]))
    for e in events:
        if e.get("fatal"):
            ck.note_inconclusive(f"generated program died rc={e.get('rc')} after case {e.get('after')}")
            continue
        if "conv" not in e or e["conv"] == "chk_inputs":
            continue
        ck.count()
        cid = int(re.match(r"c(\d+)", e["case"]).group(1))
        fal = e["case"].endswith("f")
        fc = specs[cid]
        ck.cell([fc.family, fc.depth, fc.branching, fc.perm, e["conv"]], nontrivial=(fc.depth >= 2 or fc.branching >= 2))
        if e["got"] != e["want"]:
            kind = e["conv"][4:] if e["conv"].startswith("try_") else e["conv"]
            flags = getattr(fc, "flags", set())
            kc = "from" if kind.startswith("from") else "existing" if kind.endswith("existing") else "into"
            ck.violation(f"wrong_value|{fc.family}|{fc.perm}|{kind}" if not flags else "region|" + "+".join(sorted(flags)) + f"|wrong_value|{kc}", dict(family=fc.family, input=fc.inputs["f" if fal else "i"], conversion=e["conv"], source=e["src"], got=e["got"], want=e["want"]))
        elif len(ck.samples) < 4 and fc.depth >= 2 and e["draw"] == 0 and e["conv"] in ("owned_into", "from_ref", "ref_into_existing"):
            ck.sample(dict(family=fc.family, permutation=fc.perm, input=fc.inputs["i"], conversion=e["conv"], source=e["src"], got=e["got"]))
    ck.extra["programs"] = n
    ck.extra["rustc_rejected_programs"] = len(rejected)
    if tier == "thorough":
        from vlib import cov
        cov.report(ck, "C03", cov.derive_inputs([x for sc in specs.values() for x in sc.inputs.values()]))
    return ck.finish()
