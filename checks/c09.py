"""C09 - literal / pattern instructions map enum variants to primitive values both ways (level R)."""
import re
from vlib import common, xgen, rt, rgen_prim


def overlap_class(pc):
    if pc.catch_all:
        return "catch_all"
    lits = [a for a in pc.arms if a.kind == "lit"]
    pats = [a for a in pc.arms if a.kind != "lit"]
    return "patterns+literals" if lits and pats else "literals" if lits else "patterns"


def run(tier):
    ck = common.Check("C09", tier)
    ck.rule = ("enums over u8 / i8 (whole domain, 256 values per program), i32 / u64 (every literal and range boundary +-1, MIN, MAX, random), &'static str and char; random literals, "
               "range / half-open / or-patterns, overlapping and shadowed arms, payload catch-all, default case as probe / panic / Err, the designated / a trailing variant being an S-only #[ghost({..})] variant without literal; two primitive counterparts with default + dedicated literals or range patterns on one variant; owned and by-ref, fallible and not; "
               "From on every value vs a first-match reference, Into on every variant, round trip. distinct_nontrivial = distinct (primitive, arm-kind sequence, "
               "literals|patterns|mixed|catch-all, default mode, kind) programs with >=2 arms.")
    g = xgen.G(common.rng_for("C09", tier))
    n, shards = (120, 4) if tier == "quick" else (2500, 16)
    cases, specs = [], {}
    for i in range(n):
        if i % 5 == 4:
            pc = rgen_prim.gen_two_prim_case(g, i)
            code, di = rgen_prim.render_two_prim_case(pc, g)
        else:
            pc = rgen_prim.gen_prim_case(g, i)
            code, di = rgen_prim.render_case(pc, g)
        pc.input = di
        cases.append(rt.Case(i, code, meta=pc, input_text=di))
        specs[i] = pc
    events, rejected = rt.run_sharded("c09-" + tier, cases, "syn1", shards)
    for c in rejected:
        ck.count()
        ck.violation(f"rustc_rejects|prim|{c.meta.prim}|{rt.rustc_sig(c.rejected)}", dict(input=c.meta.input, rustc=[r["rendered"] for r in c.rejected[:3]]))
    for e in events:
        if e.get("fatal"):
            ck.note_inconclusive(f"generated program died rc={e.get('rc')} after case {e.get('after')}")
            continue
        if "conv" not in e:
            continue
        ck.count()
        cid = int(re.match(r"c(\d+)", e["case"]).group(1))
        pc = specs[cid]
        key = [pc.prim, [a.kind for a in pc.arms] if not getattr(pc, "two", False) else sorted({v["form"] + ("/pattern" if v["w8"] else "") for v in pc.variants}), overlap_class(pc),
               (pc.default or {}).get("mode", "-") + ("/ghost_variant_last" if getattr(pc, "tail_ghost", False) or (getattr(pc, "dflt_ghost", False) and (pc.default or {}).get("mode") == "probe") else ""), e["conv"]]
        ck.cell(key, nontrivial=len(pc.arms) >= 2)
        pr = e.get("probes", [])
        probes_ok = len(pr) % 2 == 0 and pr[:len(pr) // 2] == pr[len(pr) // 2:]
        if e["got"] != e["want"] or not probes_ok:
            ck.violation(f"wrong_value|prim|{pc.prim}|{e['conv']}|{overlap_class(pc)}", dict(input=pc.input, conversion=e["conv"], source=e["src"], got=e["got"], want=e["want"], probes=pr))
        elif len(ck.samples) < 4 and len(pc.arms) >= 3 and e["draw"] == 1:
            ck.sample(dict(input=pc.input, conversion=e["conv"], source=e["src"], got=e["got"]))
    ck.extra["programs"] = n
    ck.extra["exhaustive_over_values_programs"] = sum(1 for p in specs.values() if p.prim in ("u8", "i8"))
    return ck.finish()
