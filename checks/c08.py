"""C08 - trait-instruction params (vars, ..update, return, attributes) act as documented.

Level R: probes inside user expressions make evaluation order / evaluate-once observable; values are compared with
reference functions. Level X: attribute markers are located in the re-parsed output (impl attrs / fn outer attrs / fn
inner attrs) for every impl the carrying instruction produces and for no other.
"""
import re
from vlib import common, xgen, rt, rgen_params, xform
from vlib.model import Instr, Field, Variant, Item, ALL_TRAIT_NAMES, kinds_of, is_fallible_name
from checks.c04 import KIND_TRAIT


def run(tier):
    ck = common.Check("C08", tier)
    ck.rule = ("level R: structs and enums, one trait instruction per shortcut/basic name with its own params: vars (0-3, later vars using earlier ones, used in member / ghost / ghosts / "
               "update / return expressions), ..update supplying ghost-less fields, return (also for into_existing), real attributes; oracle: probe ids of the conversion == "
               "[vars in declaration order, member probes in field order, update probe] resp. [vars, return probe] exactly once each, and value == reference. level X: "
               "attribute / impl_attribute / inner_attribute markers on all 24 names in random param positions. distinct_nontrivial = distinct (instruction name, vars count, "
               "tail param, attribute set, struct|enum, kind).")
    g = xgen.G(common.rng_for("C08", tier))
    n, shards = (120, 4) if tier == "quick" else (2400, 16)
    cases, specs = [], {}
    for i in range(n):
        pc = rgen_params.gen_case(g, i)
        code, di, df = rgen_params.render_case(pc, g)
        pc.inputs = {"i": di, "f": df}
        cases.append(rt.Case(i, code, meta=pc, input_text=di))
        specs[i] = pc
    events, rejected = rt.run_sharded("c08-" + tier, cases, "syn1", shards)
    for c in rejected:
        ck.count()
        ck.violation(f"rustc_rejects|params|{c.meta.kind}|{rt.rustc_sig(c.rejected)}", dict(input=c.meta.inputs["i"], input_fallible=c.meta.inputs["f"], rustc=[r["rendered"] for r in c.rejected[:2]]))
    for e in events:
        if e.get("fatal"):
            ck.note_inconclusive(f"generated program died rc={e.get('rc')}")
            continue
        if "conv" not in e:
            continue
        ck.count()
        cid = int(re.match(r"c(\d+)", e["case"]).group(1))
        mod = "f" if e["case"].endswith("f") else "i"
        pc = specs[cid]
        kind = e["conv"][4:] if e["conv"].startswith("try_") else e["conv"]
        if pc.kind == "nested":
            fam, k2 = kind.split(":")
            ck.cell(["nested", fam, pc.depth, sorted(k for k, v in pc.extra.items() if v), pc.upd, k2, mod])
            if e["got"] != e["want"]:
                ck.violation(f"params|wrong_value|nested_{fam}|{k2}|update", dict(input=pc.inputs[mod], conversion=e["conv"], got=e["got"], want=e["want"]))
            continue
        if pc.kind == "hinted":
            ids = [p[0] for p in e.get("probes", [])]
            want_ids = pc.expect[mod][kind]
            fam, k2 = kind.split(":")
            ck.cell(["hinted", fam, pc.a_ty if fam == "A" else "TB as {}", pc.a_nv if fam == "A" else 0, "update" if fam == "A" else "return", k2, mod])
            if e["got"] != e["want"]:
                ck.violation(f"params|wrong_value|hinted_{fam}|{k2}|{'update' if fam == 'A' else 'return'}", dict(input=pc.inputs[mod], conversion=e["conv"], got=e["got"], want=e["want"]))
            elif ids != want_ids:
                ck.violation(f"params|probe_sequence|hinted_{fam}|{k2}", dict(input=pc.inputs[mod], conversion=e["conv"], probes_observed=ids, probes_expected=want_ids))
            continue
        d = next(x for x in pc.instrs if kind in kinds_of(x["name"]))
        ids = [p[0] for p in e.get("probes", [])]
        if pc.kind == "struct":
            want_ids = pc.expect[mod][kind]
        else:
            vids, ret = pc.expect[mod][kind]
            want_ids = vids + ([ret] if ret is not None else ([pc.ida] if e["src"].startswith("A(") else []))
        ck.cell([d["name"], d["nvars"], d["tail"] or ("update" if d.get("update") else "-"), sorted(d["attrs"]), pc.kind, kind])
        if e["got"] != e["want"]:
            ck.violation(f"params|wrong_value|{pc.kind}|{kind}|{d['tail'] or ('update' if d.get('update') else 'plain')}", dict(input=pc.inputs[mod], conversion=e["conv"], got=e["got"], want=e["want"]))
        elif ids != want_ids:
            what = "vars_order_or_count" if [i for i in ids if i in range(d["base"], d["base"] + 3)] != [i for i in want_ids if i in range(d["base"], d["base"] + 3)] else "member_or_tail_probes"
            ck.violation(f"params|probe_sequence|{what}|{pc.kind}|{kind}", dict(input=pc.inputs[mod], conversion=e["conv"], probes_observed=ids, probes_expected=want_ids))
        elif len(ck.samples) < 3 and d["nvars"] >= 2:
            ck.sample(dict(input=pc.inputs[mod], conversion=e["conv"], probes=ids, got=e["got"]))
    attributes_x(ck, g, tier)
    ck.extra["programs"] = n
    return ck.finish()


def attributes_x(ck, g, tier):
    n = 700 if tier == "quick" else 20000
    items, plans = [], []
    for i in range(n):
        kind = g.pick(["struct", "enum"])
        it = Item(kind, "S", shape="named")
        if kind == "struct":
            it.fields = [Field("a", "i32"), Field("b", "u8")]
            if g.chance(0.35):
                it.fields.append(Field("p", "P", [Instr("parent", "parent", container=None, fields=None)]))   # post-init skeletons
        else:
            it.variants = [Variant("V0"), Variant("V1", "tuple", [Field(None, "i32")])]
        taken = set()
        plan = []
        for _ in range(g.r.randint(1, 4)):
            nm = g.pick(ALL_TRAIT_NAMES)
            if kind == "enum" and "existing" in nm:
                continue
            cp = g.pick(["A", "B"])
            fal = is_fallible_name(nm)
            slots = {(k, fal, cp) for k in kinds_of(nm)}
            if slots & taken:
                continue
            taken |= slots
            ps = []
            marks = {}
            for an in ("attribute", "impl_attribute", "inner_attribute"):
                if g.chance(0.5):
                    m = f"mk{g.mark()}"
                    marks[an] = m
                    ps.append((an, f"{m}(x)"))
            if g.chance(0.3):
                ps.append(("vars", [("v", "1")]))
            g.r.shuffle(ps)
            if g.chance(0.2) and not any(f.name == "p" for f in it.fields):
                ps.append(("return", "k(@)"))
            it.attrs.append(Instr(nm, "trait", ty=cp, hint=None, err="E" if fal else None, params=ps))
            plan.append((nm, cp, fal, marks))
        if not plan:
            continue
        items.append(it)
        plans.append(plan)
    srcs = [it.render() for it in items]
    outs = common.run_x(srcs, "s1", notext=False)
    reps = common.run_xan([o.get("text", "") if o["status"] == "ok" else "" for o in outs])
    for it, plan, src, o, rep in zip(items, plans, srcs, outs, reps):
        ck.count()
        if o["status"] != "ok" or rep.get("parse") != "ok":
            ck.violation(f"attrs|not_accepted_or_unparsable|{it.kind}", dict(input=src, outcome=common.brief(o), parse=rep.get("msg")))
            continue
        for nm, cp, fal, marks in plan:
            ck.cell(["attrs", nm, sorted(marks), it.kind])
        allmarks = {m for _, _, _, marks in plan for m in marks.values()}
        for item in rep["items"]:
            if item["kind"] != "impl":
                continue
            tr = item["trait_name"]
            fal = tr.startswith("Try")
            base = tr[3:] if fal else tr
            is_from = base == "From"
            arg = item["trait_args"][0] if item["trait_args"] else ""
            by_ref = arg.strip().startswith("&") if is_from else item["self_ref"]
            cp = re.sub(r"[&\s]", "", arg)
            kind = next(k for k, v in KIND_TRAIT.items() if v == (base, by_ref))
            owner = next(((nm, marks) for nm, c, f, marks in plan if c == cp and f == fal and kind in kinds_of(nm)), None)
            if owner is None:
                continue
            fnitem = next(s for s in item["items"] if s["kind"] == "fn")
            got = {"impl_attribute": {re.match(r"\w+", a["meta"]).group(0) for a in item["attrs"]},
                   "attribute": {re.match(r"\w+", a["meta"]).group(0) for a in fnitem["attrs"] if not a["inner"]},
                   "inner_attribute": {re.match(r"\w+", a["meta"]).group(0) for a in fnitem["attrs"] if a["inner"]}}
            for an in ("attribute", "impl_attribute", "inner_attribute"):
                want = {owner[1][an]} if an in owner[1] else set()
                if got[an] & allmarks != want:
                    ck.violation(f"attrs|{an}|{'missing' if want - got[an] else 'misplaced'}|{kind}", dict(input=src, impl=item["text"][:600], expected=sorted(want), observed=sorted(got[an])))
