"""C15 - documented misuse is diagnosed, completely, anywhere; rule-abiding inputs are never rejected.

Fault enumeration at level X: every misuse class x position class x spelling over valid base inputs of all
families, every unordered pair of classes, and the fault-free side (valid inputs, also with foreign attributes).
Oracle: the Err returned by `derive` contains the documented message for every injected fault.
"""
import itertools
import re
from vlib import common, xgen, faults
from vlib.model import Instr

FOREIGN = ['serde(rename = "x")', 'doc = "text"', 'deprecated = "x"', 'must_use = "x"', "allow(dead_code)", "repr(C)",
           "cfg_attr(test, derive(Debug))", "doc(hidden)", "non_exhaustive"]
PROFILES = ["struct_basic", "struct_children", "struct_parents", "enum_basic", "enum_prim"]


def norm(m):
    return re.sub(r"[0-9]+", "N", m)[:90]


def run(tier):
    ck = common.Check("C15", tier, level="fault_enumeration")
    ck.rule = ("fault = (misuse class, sub-form, position class first|middle|last, spelling bare|o2o(..), base family); a case is distinct by that tuple "
               "(pairs: the two tuples without position); non-trivial = the base input has >=2 members and >=1 other valid instruction around the fault. "
               "Fault-free cases are distinct by (family, foreign attribute).")
    g = xgen.G(common.rng_for("C15", tier))
    nb = 5 if tier == "quick" else 14
    bases = []
    for p in PROFILES:
        for _ in range(nb):
            bases.append(xgen.gen(g, p))
    cases = []  # (kind, item_src, meta)

    def nontrivial(it):
        ms = it.fields if it.kind == "struct" else it.variants
        return len(ms) >= 2

    # singles
    for name, inj in faults.INJECTORS.items():
        for pos in faults.POSITIONS:
            for spell in ("bare", "o2o"):
                for b in bases:
                    it = b.copy()
                    f = inj(it, g, pos, spell)
                    if f is None:
                        continue
                    cases.append(("single", it.render(), dict(faults=[f], pos=pos, spell=spell, profile=b.meta["profile"], nt=nontrivial(b), base=b.render())))
    # pairs
    names = list(faults.INJECTORS)
    npair = 6 if tier == "quick" else 16
    for a, b_ in itertools.combinations_with_replacement(names, 2):
        if a == b_ and a in ("no_trait",):
            continue
        for _ in range(npair):
            b = g.pick(bases)
            it = b.copy()
            first, second = (a, b_)
            if "no_trait" in (a, b_):
                other = b_ if a == "no_trait" else a
                if other not in ("misplaced", "unknown_dedicated", "duplicate"):
                    continue
                first, second = "no_trait", other
            # in a tuple struct an insertion shifts the indices the first fault's message names: append there
            tup = it.kind == "struct" and it.shape == "tuple"
            fa = faults.INJECTORS[first](it, g, "last" if tup else g.pick(faults.POSITIONS), g.pick(["bare", "o2o"]))
            if fa is None:
                continue
            fb = faults.INJECTORS[second](it, g, "last" if tup else g.pick(faults.POSITIONS), g.pick(["bare", "o2o"]))
            if fb is None:
                continue
            if fa.cls == fb.cls == "duplicate" and fa.sub.split("_")[:2] == fb.sub.split("_")[:2]:
                continue  # the second injection replaces the instructions of the first
            if first == "no_trait" and any(x.kind == "trait" for x in it.attrs):
                continue
            if fa.cls == "err_type" and fb.cls == "err_type" and "existing" in fa.sub + fb.sub:
                continue  # the second may undo the first on the same instruction
            cases.append(("pair", it.render(), dict(faults=[fa, fb], profile=b.meta["profile"], nt=nontrivial(b), base=b.render())))
    # fault-free
    nfree = 1200 if tier == "quick" else 14000
    for i in range(nfree):
        it = xgen.gen(g)
        fa = None
        if i % 3 == 0:
            xgen.add_foreign(g, it, 1)
            fa = next((a.f["text"] for _, _, l in it.all_attr_lists() for a in l if a.kind == "foreign"), None)
        cases.append(("free", it.render(), dict(profile=it.meta["profile"], foreign=fa)))
    for b in bases:
        cases.append(("free", b.render(), dict(profile=b.meta["profile"], foreign=None)))

    for backend in ("s1", "s2"):
        outs = common.run_x([c[1] for c in cases], backend)
        for (kind, src, meta), o in zip(cases, outs):
            ck.count()
            st = o["status"]
            msgs = o.get("msgs", [])
            if kind == "free":
                ck.cell(["free", meta["profile"], re.split(r"[(\[{ ]", meta["foreign"] or "-")[0] + ("[]" if "[" in (meta["foreign"] or "") else "{}" if "{" in (meta["foreign"] or "") else ""), backend], nontrivial=True)
                if st != "ok":
                    what = norm(msgs[-1]) if msgs else (o.get("msg", "")[:60] + "|" + o.get("func", ""))
                    nv = bool(meta["foreign"]) and ("=" in (meta["foreign"] or "")) and not re.search(r"[(\[{]", meta["foreign"])
                    sig = ("valid_rejected|name_value_attribute" if nv else f"valid_rejected|{st}|{what}")
                    ck.violation(sig, dict(input=src, outcome=o, backend=backend, foreign=meta["foreign"]))
                elif len(ck.samples) < 2:
                    ck.sample(dict(kind="fault-free", input=src, outcome="Ok"))
                continue
            fs = meta["faults"]
            if kind == "single":
                f = fs[0]
                ck.cell(["single", f.key(), meta["pos"], meta["spell"], meta["profile"]], nontrivial=meta["nt"])
                if st == "err" and faults.expect_met(f, msgs):
                    if len(ck.samples) < 5:
                        ck.sample(dict(kind="single", fault=f.key(), pos=meta["pos"], spelling=meta["spell"], input=src, expected=faults.expect_text(f), observed=msgs))
                    continue
                outcome = {"ok": "accepted", "err": "message_missing", "panic": "panic:" + o.get("msg", "")[:50] + "|" + o.get("func", "")}.get(st, st)
                ck.violation(f"single|{f.key()}|{outcome}", dict(input=src, base=meta["base"], fault=f.key(), pos=meta["pos"], spelling=meta["spell"],
                                                               expected=faults.expect_text(f), outcome=o, backend=backend))
            else:
                fa, fb = fs
                ck.cell(["pair", fa.key(), fb.key(), meta["profile"]], nontrivial=meta["nt"])
                oka = st == "err" and faults.expect_met(fa, msgs)
                okb = st == "err" and faults.expect_met(fb, msgs)
                if oka and okb:
                    if len(ck.samples) < 6:
                        ck.sample(dict(kind="pair", faults=[fa.key(), fb.key()], input=src, observed=msgs))
                    continue
                if st == "err" and o.get("class") == "parse" and (fa.parse_stage or fb.parse_stage) and (oka or okb) and not (fa.parse_stage and fb.parse_stage):
                    sig = "pair|parse_stage_diagnostic_masks_validation_diagnostics"
                elif st == "err" and fa.parse_stage and fb.parse_stage and (oka or okb):
                    sig = "pair|parse_stage_diagnostic_masks_validation_diagnostics"
                else:
                    missing = sorted({x.cls for x, ok in ((fa, oka), (fb, okb)) if not ok})
                    outcome = {"ok": "accepted", "err": "message_missing", "panic": "panic:" + o.get("msg", "")[:50] + "|" + o.get("func", "")}.get(st, st)
                    sig = f"pair|{'+'.join(sorted([fa.cls, fb.cls]))}|{outcome}|missing:{','.join(missing)}"
                ck.violation(sig, dict(input=src, base=meta["base"], faults=[fa.key(), fb.key()], expected=[faults.expect_text(fa), faults.expect_text(fb)], outcome=o, backend=backend))
    ck.extra["bases"] = len(bases)
    ck.extra["fault_classes"] = sorted(faults.INJECTORS)
    ck.assumptions = ["diagnostic texts transcribed from o2o-impl/src/tests.rs; level X (fallback proc_macro2) observes the same Err the macro turns into compile_error!"]
    return ck.finish()
