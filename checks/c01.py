"""C01 - struct conversions move every value to the field the instructions designate.

Level R: generated struct pairs are compiled with the real macro; every requested conversion (12 kinds: infallible
module + fallible twin) is run on seeded random values and compared, leaf by leaf (Debug rendering of the whole
destination), with a generator-written reference function that never goes through o2o.
"""
import re
from vlib import common, xgen, rt, rgen


def cell_of(sc, kind, fallible):
    return [sc.cell, sc.hint or "-", kind, "try" if fallible else "plain"]


def finding_witness_specs(first_cid):
    """The open findings F30-F33 (positional counterparts filled in declaration order) are exercised on every run, whatever the
    seed: three fixed programs - named S with differently typed permuted elements (F30), named S same-typed (F31, F33),
    tuple S same-typed (F32) - drawn from a generator stream that does not depend on VERIF_SEED."""
    import random
    wg = xgen.G(random.Random(20260927))
    want = {("named", False): None, ("named", True): None, ("tuple", True): None}
    for _ in range(4000):
        if all(v is not None for v in want.values()):
            break
        sc = rgen.gen_struct_case(wg, 0, dict(permuted=True, cell=wg.pick(["named->tuple_pos", "named->bare_tuple", "tuple->tuple"])))
        if "positional_permuted" not in sc.flags or sc.existing_only:
            continue
        mapped = [f for f in sc.sf if f.desig != "ghost"]
        same = len({f.ty for f in mapped}) == 1
        if not same and all(a.ty == b.ty for a, b in zip(mapped, sorted(mapped, key=lambda f: f.t.name))):
            continue      # differently typed but the permutation happens to keep every type in place
        k = (sc.s_shape, same)
        if k in want and want[k] is None:
            want[k] = sc
    # F35-F38 (an S-only member that is not last, positional counterpart): one named and one tuple deriving struct, same-typed elements
    want2 = {"named": None, "tuple": None}
    for _ in range(4000):
        if all(v is not None for v in want2.values()):
            break
        sc = rgen.gen_struct_case(wg, 0, dict(ghost_not_last=True, cell=wg.pick(["named->tuple_pos", "tuple->tuple"])))
        if "positional_ghost_not_last" not in sc.flags or sc.existing_only or len({f.ty for f in sc.sf}) != 1:
            continue
        if want2[sc.s_shape] is None:
            want2[sc.s_shape] = sc
    out = []
    for sc in list(want.values()) + list(want2.values()):
        if sc is not None:
            sc.cid = first_cid + len(out)
            out.append(sc)
    return out


def run(tier, prop="C01", opts=None):
    ck = common.Check(prop, tier)
    ck.rule = ("struct pairs over the documented-valid cells (S named/tuple/unit x T named/tuple/unit/bare tuple x hint) x 12 kinds x member designations (same, rename by ident / index, "
               "~ / @ / braced expressions split over shortcut covers with the fallback chain, as_type, ghost, ghost_owned+ghost_ref, struct-level ghosts / ghosts_owned+ghosts_ref, "
               "untouched extra fields), 1-7 fields, mixed Copy / String leaves. distinct_nontrivial = distinct (cell, hint, kind, fallibility, designation class) compared on >=2 "
               "distinct values in a program with >=2 fields.")
    g = xgen.G(common.rng_for(prop, tier))
    n, draws, shards = (160, 6, 4) if tier == "quick" else (3200, 24, 16)
    cases, specs = [], {}
    for i in range(n):
        sc = rgen.gen_struct_case(g, i, dict(opts or {}, permuted=(i % 6 == 5), ghost_not_last=(i % 12 == 7)))
        code, di, df, kinds = rgen.render_case(sc, g, draws)
        sc.inputs = {"i": di, "f": df}
        cases.append(rt.Case(i, code, meta=sc, input_text=di))
        specs[i] = sc
    if prop == "C01":
        for sc in finding_witness_specs(n):
            code, di, df, kinds = rgen.render_case(sc, g, draws)
            sc.inputs = {"i": di, "f": df}
            cases.append(rt.Case(sc.cid, code, meta=sc, input_text=di))
            specs[sc.cid] = sc
    events, rejected = rt.run_sharded(prop.lower() + "-" + tier, cases, "syn1", shards)
    for c in rejected:
        sc = c.meta
        ck.count()
        sig = f"rustc_rejects|{sc.cell}|{rt.rustc_sig(c.rejected)}" if not sc.flags else "region|" + "+".join(sorted(sc.flags)) + "|rustc_rejects"
        ck.violation(sig, dict(cell=sc.cell, precedent=rgen.CELLS.get(sc.cell), input=sc.inputs["i"], input_fallible_twin=sc.inputs["f"],
                                                                                      rustc=[r["rendered"] for r in c.rejected[:3]]))
    seen = {}
    for e in events:
        if e.get("fatal"):
            ck.note_inconclusive(f"generated program died rc={e.get('rc')} after case {e.get('after')}")
            continue
        if "conv" not in e:
            continue
        ck.count()
        cid = int(re.match(r"c(\d+)", e["case"]).group(1))
        fal = e["case"].endswith("f")
        sc = specs[cid]
        kind = e["conv"][4:] if e["conv"].startswith("try_") else e["conv"]
        classes = sorted({f.desig for f in sc.sf} | ({"ghosts"} if any(t.src is None and t.ghost for t in sc.tf) else set()) | ({"untouched"} if any(t.untouched for t in sc.tf) else set()))
        key = (cid, fal, kind)
        seen.setdefault(key, set()).add(e["got"])
        if e["got"] != e["want"]:
            what = "panic" if e["got"].startswith("PANIC") else "value"
            kc = "from" if kind.startswith("from") else "existing" if kind.endswith("existing") else "into"
            sig = f"wrong_{what}|{sc.cell}|{sc.hint or '-'}|{kind}" if not sc.flags else "region|" + "+".join(sorted(sc.flags)) + f"|wrong_{what}|{kc}|{sc.s_shape}"
            ck.violation(sig, dict(cell=sc.cell, input=sc.inputs["f" if fal else "i"], conversion=e["conv"], source=e["src"], got=e["got"], want=e["want"]))
        elif len(ck.samples) < 3 and len(sc.sf) >= 3 and e["draw"] == 0:
            ck.sample(dict(input=sc.inputs["f" if fal else "i"], conversion=e["conv"], source=e["src"], got=e["got"]))
    for (cid, fal, kind), vals in seen.items():
        sc = specs[cid]
        for cls in sorted({f.desig for f in sc.sf} | ({"ghosts"} if any(t.src is None and t.ghost for t in sc.tf) else set()) | ({"untouched"} if any(t.untouched for t in sc.tf) else set())) or ["none"]:
            ck.cell(cell_of(sc, kind, fal) + [cls], nontrivial=(len(vals) >= 2 and len(sc.sf) + len(sc.tf) >= 3))
    ck.extra["programs"] = n
    ck.extra["rustc_rejected_programs"] = len(rejected)
    ck.assumptions = ["reference functions are rendered from the spec's designations, independently of the DSL rendering", "rustc and the real proc-macro bridge are the execution platform"]
    if tier == "thorough":
        from vlib import cov
        cov.report(ck, "C01", cov.derive_inputs([x for sc in specs.values() for x in sc.inputs.values()]))
    return ck.finish()
