"""C20 - generated code works in #![no_std]: only ::core::convert, ::core::result::Result, o2o::traits, the prelude
and user names.

Level X: identifiers of the expansion that do not occur in the input must be on the allow-list (transcribed from the
statement / README 'no_std'); `core` and `o2o` may only occur inside the documented paths. Level R (vlib/rt): a
`#![no_std]` crate using every conversion kind is compiled with the real macro and run.
"""
import re
from vlib import common, xgen, xform
from checks import c14

ALLOW = {"core", "convert", "result", "Result", "From", "TryFrom", "Into", "TryInto", "o2o", "traits", "IntoExisting", "TryIntoExisting", "Error", "Ok",
         "Default", "default", "value", "other", "obj", "from", "try_from", "into", "try_into", "into_existing", "try_into_existing",
         "impl", "for", "fn", "type", "let", "mut", "match", "where", "self", "Self", "as"}
IDENT = re.compile(r"^[A-Za-z_][A-Za-z0-9_]*$")
FN = re.compile(r"^f[0-9]+$")


def path_ok(toks, i):
    """`core` / `o2o` / `std` / `alloc` occurrences introduced by the macro must sit in a documented path"""
    t = toks[i]
    nxt = toks[i + 1:i + 6]
    prev = toks[i - 2:i]
    if t == "core":
        return prev == [":^", ":"] and (nxt[:3] == [":^", ":", "convert"] or nxt[:5] == [":^", ":", "result", ":^", ":"])
    if t == "o2o":
        return (toks[i - 1] == "'") or (nxt[:3] == [":^", ":", "traits"] and toks[i - 2:i] != [":^", ":"])
    return True


def run(tier):
    ck = common.Check("C20", tier)
    ck.rule = ("level X: every accepted input of all families / spellings / repeat forms; identifiers in the output that do not occur in the input must be on the allow-list, "
               "`core`/`o2o` only inside ::core::convert::*, ::core::result::Result, o2o::traits::*, 'o2o; std/alloc never. level R: #![no_std] crate with all 12 kinds built "
               "with the real macro and run. distinct_nontrivial = distinct (skeleton = trait x by-ref x has post-init/pre-init/inner attr, family).")
    g = xgen.G(common.rng_for("C20", tier))
    n = 3000 if tier == "quick" else 80000
    items = []
    for i in range(n):
        if i % 5 == 4:
            it = g.pick([c14.gen_struct, c14.gen_enum, c14.gen_trait_level])(g)[0]
            it.meta["profile"] = "repeat"
        else:
            it = xform.respell(xgen.gen(g), g, g.pick(["bare", "bare", "mixed"]))
        items.append(it)
    srcs = [it.render() for it in items]
    for backend in ("s1", "s2"):
        outs = common.run_x(srcs, backend)
        for it, src, o in zip(items, srcs, outs):
            if o["status"] != "ok":
                continue
            ck.count()
            toks = o["tokens"]
            inp = set(re.findall(r"[A-Za-z_][A-Za-z0-9_]*", src))
            bad = []
            for i, t in enumerate(toks):
                if not IDENT.match(t):
                    continue
                if t in ("std", "alloc") and t not in inp:
                    bad.append(("forbidden_crate", t))
                if t in ("core", "o2o", "std", "alloc") and t not in inp and not path_ok(toks, i):
                    bad.append(("path", t + ":" + common.detok(toks[max(0, i - 3):i + 6])))
                if t not in inp and t not in ALLOW and not FN.match(t):
                    bad.append(("ident", t))
            for h, b in common.split_items(toks):
                info = common.header_info(h)
                sk = [info.get("trait"), info.get("by_ref"), "obj" in b, "let" in b, "!" in b[:4]]
                ck.cell([sk, it.meta.get("profile")])
            if bad:
                kinds = sorted({f"{k}:{v if k != 'path' else v.split(':')[0]}" for k, v in bad})
                ck.violation(f"no_std|{kinds[0]}", dict(input=src, backend=backend, offending=bad[:10]))
            elif len(ck.samples) < 3 and toks.count("impl") >= 4:
                ck.sample(dict(input=src, introduced_identifiers=sorted({t for t in toks if IDENT.match(t) and t not in inp}), backend=backend))
    try:
        from vlib import rt_probe
        rt_probe.c20_nostd(ck, g, tier)
    except ImportError:
        ck.note_inconclusive("level-R no_std crate not built yet")
    if tier == "thorough":
        from vlib import cov
        cov.report(ck, "C20", srcs)
    return ck.finish()
