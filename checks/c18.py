"""C18 - the syn 1 and syn 2 back-ends behave identically."""
import re
from vlib import common, xgen, xform, faults
from checks.c19 import multi_fault_items


def workload(g, tier):
    nvalid, nfault, nsoup = (3000, 1500, 2500) if tier == "quick" else (40000, 20000, 40000)
    items = [("valid", xgen.gen(g)) for _ in range(nvalid)]
    items += [("faulty", it) for it in multi_fault_items(g, nfault, 1, 3)]
    res = []
    for cls, it in items:
        if g.chance(0.3):
            xgen.add_foreign(g, it, g.r.randint(1, 2))
        mode = g.pick(["bare", "bare", "o2o", "grouped", "mixed"])
        res.append((cls + "/" + mode, it.meta.get("profile", "?"), xform.respell(it, g, mode).render()))
    # the wrapper attribute itself in degenerate forms (no argument list, name-value, empty list in any delimiter), on the type and on members
    from vlib.model import Instr
    for _ in range(nvalid // 40):
        it = xgen.gen(g)
        form = g.pick(["o2o", 'o2o = "x"', "o2o()", "o2o[]", "o2o{}", "o2o(,)"])
        members = it.fields if it.kind == "struct" else it.variants
        if members and g.chance(0.7):
            m = g.pick(members)
            m.attrs.insert(g.r.randint(0, len(m.attrs)), Instr("foreign", "foreign", text=form))
        else:
            it.attrs.insert(g.r.randint(0, len(it.attrs)), Instr("foreign", "foreign", text=form))
        res.append(("wrapper_degenerate", it.meta.get("profile", "?"), it.render()))
    try:
        from vlib import soup
        for _ in range(nsoup):
            res.append(("soup", "soup", soup.gen(g)))
    except ImportError:
        pass
    return res


def features(src):
    f = []
    if re.search(r"#\[\w+\]", src):
        f.append("bare_noargs")
    if "#[o2o(" in src:
        f.append("o2o_list")
    if "child_parents" in src:
        f.append("child_parents")
    if re.search(r"#\[\w+ = ", src):
        f.append("name_value")
    if re.search(r"child_parents\([^)]*<", src):
        f.append("generic_child_parent")
    return f


def run(tier):
    ck = common.Check("C18", tier)
    ck.rule = ("every input (valid, fault-injected, attribute soup; all spellings) is expanded by the syn1 build and by the syn2 build of the same sources; both Ok => "
               "token-identical; both validation errors => equal message sets; otherwise same verdict and class. distinct_nontrivial = distinct "
               "(status pair, workload class, family, cfg-split constructs present: bare attribute without args / o2o(..) list / child_parents / name-value).")
    g = xgen.G(common.rng_for("C18", tier))
    g.allow_unknown_p = 0.06
    wl = workload(g, tier)
    srcs = [w[2] for w in wl]
    o1 = common.run_x(srcs, "s1")
    o2 = common.run_x(srcs, "s2")
    for (cls, prof, src), a, b in zip(wl, o1, o2):
        ck.count()
        ck.cell([a["status"], b["status"], cls, prof, features(src)])
        d = None
        if a["status"] != b["status"]:
            d = f"verdict:{a['status']}/{b['status']}"
        elif a["status"] == "ok":
            if a["tokens"] != b["tokens"]:
                d = "tokens"
        elif a["status"] == "err":
            if a["class"] != b["class"]:
                d = f"class:{a['class']}/{b['class']}"
            elif a["class"] == "validation" and sorted(a["msgs"]) != sorted(b["msgs"]):
                d = "diagnostic_set"
        elif a["status"] == "panic":
            if (a.get("msg"), a.get("func")) != (b.get("msg"), b.get("func")):
                d = "panic_signature"
        if d is None:
            if len(ck.samples) < 3 and cls.startswith("faulty"):
                ck.sample(dict(input=src, syn1=common.brief(a), syn2=common.brief(b)))
            continue
        w = dict(input=src, syn1=common.brief(a), syn2=common.brief(b))
        if d == "tokens":
            w["first_difference"] = common.first_token_diff(a["tokens"], b["tokens"])
        detail = ""
        if d == "diagnostic_set":
            detail = "|" + re.sub(r"[0-9]+", "N", sorted(set(a["msgs"]) ^ set(b["msgs"]))[0])[:60]
        ck.violation(f"backend|{d}{detail}", w)
    if tier == "thorough":
        from vlib import cov
        cov.report(ck, "C18", srcs)
        level_r(ck, g, 240)
    return ck.finish()


def level_r(ck, g, n):
    """the same generated programs are compiled against o2o built with `syn1` and with `default-features = false, features = ["syn2"]`
    (the real proc-macro in both configurations) and their event logs compared"""
    from vlib import rt, rgen, rgen_enum, rgen_flat
    cases = []
    for i in range(n):
        fam = i % 3
        if fam == 0:
            m = rgen.gen_struct_case(g, i)
            code, di, df, _ = rgen.render_case(m, g, 3)
        elif fam == 1:
            m = rgen_enum.gen_enum_case(g, i)
            code, di, df, _ = rgen_enum.render_case(m, g, 3)
        else:
            m = rgen_flat.gen_case(g, i)
            code, di, df = rgen_flat.render_case(m, g, 3)
        cases.append((i, code, di))
    logs = {}
    for feat in ("syn1", "syn2"):
        cs = [rt.Case(i, code, input_text=di) for i, code, di in cases]
        ev, rej = rt.run_sharded(f"c18r-{feat}", cs, feat, 8)
        logs[feat] = ({(e["case"], e["conv"], e["draw"], e.get("src", "")): e["got"] for e in ev if "conv" in e}, {c.cid: rt.rustc_sig(c.rejected) for c in rej})
    a, b = logs["syn1"], logs["syn2"]
    byid = {i: di for i, _, di in cases}
    for cid in set(a[1]) ^ set(b[1]):
        ck.violation("backend|level_R|rustc_verdict_differs", dict(input=byid[cid], syn1=a[1].get(cid, "accepted"), syn2=b[1].get(cid, "accepted")))
    for k in set(a[0]) | set(b[0]):
        ck.count()
        if a[0].get(k) != b[0].get(k):
            cid = int(re.match(r"c(\d+)", k[0]).group(1))
            if cid in a[1] or cid in b[1]:
                continue
            ck.violation("backend|level_R|conversion_result_differs", dict(input=byid[cid], conversion=k[1], syn1=a[0].get(k), syn2=b[0].get(k)))
    ck.cell(["level_R", "programs", n])
    ck.extra["level_R"] = {"programs": n, "events_compared": len(set(a[0]) | set(b[0])), "rustc_rejected": [len(a[1]), len(b[1])]}
