"""C12 - shortcut instructions equal the basic instructions they abbreviate (README 232-264)."""
from vlib import common, xgen, xform


def run(tier):
    ck = common.Check("C12", tier)
    ck.rule = ("each generated input (all families, no repeat() params) is expanded as written and with every shortcut - type, field, variant, variant-field and nested "
               "[..] level, incl. ghost->ghost_owned+ghost_ref and ghosts->ghosts_owned+ghosts_ref and try_ forms - replaced by the README's list of basic instructions; "
               "multisets of impl items must be equal / same verdict. distinct_nontrivial = distinct (shortcut name, level, struct|enum, family) seen in a compared pair.")
    g = xgen.G(common.rng_for("C12", tier))
    n = 3000 if tier == "quick" else 40000
    items, longs = [], []
    while len(items) < n:
        it = xgen.gen(g)
        lg, used = xform.expand_shortcuts(it)
        if not used:
            continue
        it.meta["used"] = used
        items.append(it)
        longs.append(lg)
    srcs = [x.render() for x in items] + [x.render() for x in longs]
    for backend in ("s1", "s2"):
        outs = common.run_x(srcs, backend)
        viol = []
        for i, it in enumerate(items):
            a, b = outs[i], outs[n + i]
            ck.count()
            for nm, lvl in it.meta["used"]:
                ck.cell([nm, lvl, it.kind, it.meta["profile"]])
            d = common.diff_outcomes(a, b, "set")
            if d is None:
                if len(ck.samples) < 3 and len(it.meta["used"]) >= 3:
                    ck.sample(dict(short=srcs[i], long=srcs[n + i], outcome=common.brief(a), backend=backend))
                continue
            viol.append((i, d))
        # shrink each violation: expand one shortcut occurrence at a time
        for i, d in viol[:200]:
            it = items[i]
            singles = one_at_a_time(it)
            so = common.run_x([s.render() for _, s in singles], backend) if singles else []
            culprits = sorted({f"{nm}@{lvl}" for ((nm, lvl), _), o in zip(singles, so) if common.diff_outcomes(outs[i], o, "set")})
            sig = f"shortcut|{d}|{it.kind}|{','.join(culprits) or 'combination'}"
            w = dict(short=srcs[i], long=srcs[n + i], backend=backend, short_outcome=common.brief(outs[i]), long_outcome=common.brief(outs[n + i]), culprits=culprits)
            if d == "impl_set":
                ma, mb = common.items_multiset(outs[i]["tokens"]), common.items_multiset(outs[n + i]["tokens"])
                w["only_in_short"] = [common.detok(list(x))[:400] for x in (ma - mb)][:2]
                w["only_in_long"] = [common.detok(list(x))[:400] for x in (mb - ma)][:2]
            ck.violation(sig, w)
    if tier == "thorough":
        from vlib import cov
        cov.report(ck, "C12", srcs)
    return ck.finish()


def one_at_a_time(it):
    """variants of `it` in which exactly one shortcut occurrence is written out"""
    res = []
    k = 0
    while True:
        v = it.copy()
        seen = -1
        done = False
        for level, owner, lst in v.all_attr_lists():
            new = []
            for ins in lst:
                is_short = (ins.kind in ("trait", "map") and xform.base_name(ins.name) in xform.TRAIT_SHORT) or (ins.kind in ("ghost", "ghosts") and ins.name in xform.GHOST_SHORT)
                if is_short:
                    seen += 1
                    if seen == k:
                        tmp = xgen.Item("struct", "T")
                        tmp.attrs = [ins]
                        ex, _ = xform.expand_shortcuts(tmp)
                        new += ex.attrs
                        res.append(((ins.name, level), v))
                        done = True
                        continue
                new.append(ins)
            lst[:] = new
        if not done:
            break
        k += 1
    return res
