"""C14 - repeat / skip_repeat / stop_repeat equal writing the instructions out.

The generator builds a member (or trait-instruction) sequence with random block boundaries and produces two
renderings from the *statement's wording*: rolled (with repeat instructions) and unrolled (repeated instructions
copied onto every following member up to, not including, the stop member; skip members left alone; blocks end at
the end of the struct / variant, or of the enum with permeate()).
"""
from vlib import common, xgen
from vlib.model import Instr, Field, Variant, Item, kinds_of, is_fallible_name

CATS = ["map", "child", "parent", "ghost", "type_hint"]


def cat_of(ins):
    return {"map": "map", "as_type": "map", "child": "child", "parent": "parent", "ghost": "ghost", "type_hint": "type_hint"}.get(ins.kind)


def slots(ins):
    if ins.kind == "map":
        return {(k, is_fallible_name(ins.name)) for k in kinds_of(ins.name)}
    if ins.kind == "as_type":
        return {(k, False) for k in xgen.KINDS}
    return set()


def gen_member_instrs(g, level, shape, idx, avoid_slots=frozenset(), cats=None, paths=None):
    """random own instructions for a member; level: field | variant | vfield"""
    r = g.r
    out = []
    named = shape == "named"
    allowed = {"field": ["map", "child", "ghost", "parent"], "vfield": ["map", "ghost"], "variant": ["map", "type_hint", "ghost"]}[level]
    if cats is not None:
        allowed = [c for c in allowed if c in cats]
    r.shuffle(allowed)
    for c in allowed[:r.randint(0, 2)]:
        k = g.mark()
        if c == "map":
            for _ in range(r.randint(1, 2)):
                nm = r.choice(xgen.MEMBER_MAP_NAMES)
                ins = Instr(nm, "map", container=None, member=None, action=None)
                if slots(ins) & avoid_slots or any(slots(ins) & slots(o) for o in out):
                    continue
                k = g.mark()
                if level == "variant":
                    ins.f["member"] = f"M{k}"
                else:
                    if g.chance(0.5):
                        ins.f["member"] = f"m{k}" if named else idx
                    if ins.f["member"] is None or g.chance(0.5):
                        ins.f["action"] = f"k{k}(~)"
                out.append(ins)
        elif c == "child":
            out.append(Instr("child", "child", container=None, path=r.choice(paths)))
        elif c == "ghost":
            out.append(Instr(r.choice(["ghost", "ghost_owned", "ghost_ref"]), "ghost", container=None, action=f"k{k}()", braced=True))
        elif c == "parent":
            out.append(Instr("parent", "parent", container=None, fields=None))
        elif c == "type_hint":
            out.append(Instr("type_hint", "type_hint", container=None, hint=("()" if shape != "tuple" else "{}")))
    return out


class Roller:
    """threads one level of repeat state over a member sequence, producing rolled and unrolled attribute lists"""

    def __init__(self, g, level, paths=None):
        self.g, self.level, self.paths = g, level, paths
        self.active = None  # (template instrs, cats set, permeate)
        self.stats = []

    def end_scope(self, end_of_enum=False):
        if self.active and (end_of_enum or not self.active[2]):
            self.active = None

    def member(self, shape, idx, allow_permeate=False, last=False):
        g, r = self.g, self.g.r
        rolled, unrolled = [], []
        act = self.active
        roll = r.random()
        if act is None:
            if roll < 0.35:
                what = "start"
            else:
                what = "plain"
        else:
            what = "inherit" if roll < 0.5 else "skip" if roll < 0.65 else "stop" if roll < 0.8 else "stop_start"
        if what in ("start", "stop_start"):
            cats = None if g.chance(0.4) else set(r.sample(CATS, r.randint(1, 3)))
            perm = allow_permeate and g.chance(0.5)
            own = gen_member_instrs(g, self.level, shape, idx, paths=self.paths)
            if what == "stop_start":
                rolled.append(Instr("stop_repeat", "stop_repeat"))
            rolled.append(Instr("repeat", "repeat", permeate=perm, cats=sorted(cats) if cats else [], parens=(g.chance(0.7) or perm or bool(cats))))
            rolled += [x.copy() for x in own]
            unrolled += [x.copy() for x in own]
            self.active = (own, cats, perm)
            self.stats.append(("block_start" if what == "start" else "stop+repeat", "all" if cats is None else "+".join(sorted(cats)), perm))
        elif what == "plain":
            own = gen_member_instrs(g, self.level, shape, idx, paths=self.paths)
            rolled += [x.copy() for x in own]
            unrolled += [x.copy() for x in own]
        elif what == "stop":
            own = gen_member_instrs(g, self.level, shape, idx, paths=self.paths)
            rolled.append(Instr("stop_repeat", "stop_repeat"))
            rolled += [x.copy() for x in own]
            unrolled += [x.copy() for x in own]
            self.active = None
            self.stats.append(("stop", "", False))
        else:
            tmpl, cats, perm = act
            rep = [x for x in tmpl if cats is None or cat_of(x) in cats]
            taken = set()
            for x in rep:
                taken |= slots(x)
            repcats = {cat_of(x) for x in rep}
            owncats = [c for c in CATS if c not in repcats]
            own = gen_member_instrs(g, self.level, shape, idx, avoid_slots=frozenset(taken), cats=owncats + (["map"] if "map" in repcats else []), paths=self.paths)
            # re-target names of repeated map instructions is not done: o2o copies them verbatim
            if what == "skip":
                rolled.append(Instr("skip_repeat", "skip_repeat"))
                rolled += [x.copy() for x in own]
                unrolled += [x.copy() for x in own]
                self.stats.append(("skip", "", False))
            else:
                rolled += [x.copy() for x in own]
                unrolled += [x.copy() for x in own] + [x.copy() for x in rep]
                self.stats.append(("inherit", str(len(rep)), perm))
        if g.chance(0.5):
            r.shuffle(rolled)
        return rolled, unrolled


def gen_struct(g):
    r = g.r
    shape = r.choice(["named", "named", "tuple"])
    cps = ["A"]
    paths = ["pa", "pa.pb", "pc"]
    ro, un = Item("struct", "S", shape=shape), Item("struct", "S", shape=shape)
    tr = g.trait_set(cps)
    cp = Instr("child_parents", "child_parents", container=None, entries=[dict(path=p, ty="T" + p.replace(".", "_"), hint=None) for p in paths])
    ro.attrs = [t.copy() for t in tr] + [cp.copy()]
    un.attrs = [t.copy() for t in tr] + [cp.copy()]
    rl = Roller(g, "field", paths)
    n = r.randint(2, 10)
    for i in range(n):
        a, b = rl.member(shape, i)
        ty = r.choice(xgen.LEAF_TYPES)
        nm = f"f{i}" if shape == "named" else None
        ro.fields.append(Field(nm, ty, a))
        un.fields.append(Field(nm, ty, b))
    return ro, un, rl.stats, "struct_fields"


def gen_enum(g):
    r = g.r
    ro, un = Item("enum", "S"), Item("enum", "S")
    tr = g.trait_set(["A"], allow_existing=False)
    ro.attrs = [t.copy() for t in tr]
    un.attrs = [t.copy() for t in tr]
    vr = Roller(g, "variant")
    fr = Roller(g, "vfield")
    use_v = g.chance(0.5)
    nv = r.randint(2, 6)
    for i in range(nv):
        shape = r.choice(["unit", "tuple", "named", "named"])
        if use_v:
            a, b = vr.member(shape, i)
        else:
            a, b = [], []
        v1, v2 = Variant(f"V{i}", shape, [], a), Variant(f"V{i}", shape, [], b)
        if shape != "unit":
            for j in range(r.randint(1, 4)):
                fa, fb = fr.member(shape, j, allow_permeate=True)
                ty = r.choice(xgen.LEAF_TYPES)
                nm = f"x{j}" if shape == "named" else None
                v1.fields.append(Field(nm, ty, fa))
                v2.fields.append(Field(nm, ty, fb))
        fr.end_scope()
        ro.variants.append(v1)
        un.variants.append(v2)
    return ro, un, vr.stats + fr.stats, "enum_variants" if use_v else "enum_variant_fields"


def gen_trait_level(g):
    """trait-instruction sequences with repeat(..) params"""
    r = g.r
    kind = r.choice(["struct", "struct", "enum"])
    ro = Item(kind, "S", shape="named")
    un = Item(kind, "S", shape="named")
    if kind == "struct":
        for it in (ro, un):
            it.fields = [Field("a", "i32"), Field("b", "u8")]
    else:
        # a third variant that only S has (action-less #[ghost]): the Into impls need the instruction's `_ => ..` default case, which makes an
        # inherited default case visible in the expansion; half of the time a #[literal] variant does the same for the From direction
        third = Variant("V2", attrs=[Instr("ghost", "ghost", container=None, action=None)]) if g.chance(0.7) else None
        for it in (ro, un):
            it.variants = [Variant("V0"), Variant("V1", "tuple", [Field(None, "i32")])] + ([third] if third else [])
    names = r.sample(["from_owned", "owned_into", "map", "try_from_ref", "into", "ref_into", "try_map_owned", "from", "into_existing" if kind == "struct" else "map_ref"], r.randint(1, 3))
    if g.chance(0.4):
        # an instruction name together with its try_ twin: they must not share a repeat block
        from vlib.model import FALLIBLE_NAME, INFALLIBLE_NAME
        n0 = names[0]
        names.append(FALLIBLE_NAME.get(n0) or INFALLIBLE_NAME.get(n0))
    active = {}
    stats = []
    n = r.randint(3, 8)
    for i in range(n):
        nm = r.choice(names)
        fal = is_fallible_name(nm)
        ty = f"Z{i}"
        err = "Er" if fal else None
        act = active.get(nm)

        def own_params(allow_types):
            ps = []
            if "vars" in allow_types and g.chance(0.5):
                k = g.mark()
                ps.append(("vars", [(f"v{k}", f"k{k}(&@)")]))
            for an in ("attribute", "impl_attribute", "inner_attribute"):
                if g.chance(0.2):
                    ps.append((an, f"a{g.mark()}(x)"))
            tail = [t for t in ("update", "return", "default") if t in allow_types and not (t == "update" and kind == "enum")]
            if tail and g.chance(0.5):
                t = r.choice(tail)
                k = g.mark()
                ps.append({"update": ("update", f"k{k}()"), "return": ("return", f"k{k}(@)"), "default": ("default", f"=> k{k}()")}[t])
            return ps

        ALL = ["vars", "update", "return", "default"]
        PNAME = {"vars": "vars", "update": "update", "return": "quick_return", "default": "default_case"}
        roll = r.random()
        if act is None:
            what = "start" if roll < 0.5 else "plain"
        else:
            what = "inherit" if roll < 0.5 else "skip" if roll < 0.65 else "stop" if roll < 0.8 else "stop_start"
        if what in ("start", "stop_start"):
            types = ALL if g.chance(0.4) else r.sample(ALL, r.randint(1, 3))
            ps = own_params(ALL)
            rp = ([("stop_repeat", None)] if what == "stop_start" else []) + [("repeat", [] if len(types) == 4 and g.chance(0.7) else [PNAME[t] for t in types])]
            ro.attrs.append(Instr(nm, "trait", ty=ty, hint=None, err=err, params=order(g, rp + ps)))
            un.attrs.append(Instr(nm, "trait", ty=ty, hint=None, err=err, params=order(g, ps)))
            active[nm] = (ps, set(types))
            stats.append((what, "+".join(sorted(types)), False))
        elif what == "plain":
            ps = own_params(ALL)
            ro.attrs.append(Instr(nm, "trait", ty=ty, hint=None, err=err, params=order(g, ps)))
            un.attrs.append(Instr(nm, "trait", ty=ty, hint=None, err=err, params=order(g, ps)))
        elif what == "stop":
            ps = own_params(ALL)
            ro.attrs.append(Instr(nm, "trait", ty=ty, hint=None, err=err, params=order(g, [("stop_repeat", None)] + ps)))
            un.attrs.append(Instr(nm, "trait", ty=ty, hint=None, err=err, params=order(g, ps)))
            active.pop(nm)
            stats.append(("stop", "", False))
        elif what == "skip":
            ps = own_params(ALL)
            ro.attrs.append(Instr(nm, "trait", ty=ty, hint=None, err=err, params=order(g, [("skip_repeat", None)] + ps)))
            un.attrs.append(Instr(nm, "trait", ty=ty, hint=None, err=err, params=order(g, ps)))
            stats.append(("skip", "", False))
        else:
            tps, types = act
            inherited = [p for p in tps if p[0] in types]
            tail_inh = any(p[0] in ("update", "return", "default") for p in inherited)
            free = [t for t in ALL if t not in types]
            if tail_inh:
                free = [t for t in free if t == "vars"]
            ps = own_params(free)
            ro.attrs.append(Instr(nm, "trait", ty=ty, hint=None, err=err, params=order(g, ps)))
            un.attrs.append(Instr(nm, "trait", ty=ty, hint=None, err=err, params=order(g, ps + inherited)))
            stats.append(("inherit", str(len(inherited)), False))
    return ro, un, stats, "trait_params"


def order(g, ps):
    """update / return / default consume the rest of the instruction: keep them last; shuffle the rest"""
    tail = [p for p in ps if p[0] in ("update", "return", "default")]
    head = [p for p in ps if p[0] not in ("update", "return", "default")]
    g.r.shuffle(head)
    return head + tail[:1]


def run(tier):
    ck = common.Check("C14", tier)
    ck.rule = ("rolled/unrolled pairs over struct fields, tuple fields, enum variants, variant fields (permeating and not) and trait-instruction sequences; "
               "expansions must be token-identical / same verdict. distinct_nontrivial = distinct (level, sorted multiset of block events "
               "[start/inherit/skip/stop/stop+repeat with category filter and permeate flag]) with at least one inheriting member.")
    g = xgen.G(common.rng_for("C14", tier))
    n = 2400 if tier == "quick" else 60000
    cases = []
    for i in range(n):
        cases.append(g.pick([gen_struct, gen_struct, gen_enum, gen_enum, gen_trait_level])(g))
    srcs = [c[0].render() for c in cases] + [c[1].render() for c in cases]
    for backend in ("s1", "s2"):
        outs = common.run_x(srcs, backend)
        for i, (ro, un, stats, level) in enumerate(cases):
            a, b = outs[i], outs[n + i]
            ck.count()
            inh = any(s[0] == "inherit" for s in stats)
            key = [level, sorted({f"{s[0]}:{s[1] if s[0] != 'inherit' else ''}:{'P' if s[2] else ''}" for s in stats})]
            ck.cell(key, nontrivial=inh)
            d = common.diff_outcomes(a, b, "tok")
            if d is None:
                if len(ck.samples) < 4 and inh and len(stats) >= 4:
                    ck.sample(dict(rolled=srcs[i], unrolled=srcs[n + i], outcome=common.brief(a), backend=backend))
                continue
            ev = sorted({s[0] + (":permeate" if s[2] else "") for s in stats})
            w = dict(rolled=srcs[i], unrolled=srcs[n + i], backend=backend, rolled_outcome=common.brief(a), unrolled_outcome=common.brief(b), block_events=stats)
            if d == "tokens":
                w["first_difference"] = common.first_token_diff(a["tokens"], b["tokens"])
            ck.violation(f"repeat|{d}|{level}|{','.join(ev)}", w)
    if tier == "thorough":
        from vlib import cov
        cov.report(ck, "C14", srcs)
    return ck.finish()
