"""C10 - `@` and `~` are substituted everywhere; all other user tokens pass through.

A token-tree generator builds inline expressions as *token lists* (so their canonical form is known without asking any
parser), places them in every position that accepts an expression, and checks per generated impl:
 (1) uniformity - the impl equals the impl obtained with the marker expression `{QQ7}` in that position, with the marker
     replaced by the user's token tree in which every `~` / `@` (at any depth) is replaced by what o2o substitutes for
     a bare `{~}` / `{@}` in the same position (learned from two more expansions);
 (2) meaning - that `@` substitution is `value` (From) / `self` (Into*), and the `~` substitution is the path the
     statement names (computed from the spec).
"""
from vlib import common, xgen, xform
from vlib.model import Instr, Field, Variant, Item

OPEN = {"(": ")", "[": "]", "{": "}"}


class TT:
    """token-tree builder; nodes: ('t', text) ident/literal; ('p', ch, joint); ('lt', name); ('g', open, [nodes]); ('ph', '~'|'@')"""

    def __init__(self, g, allow_tilde=True):
        self.g = g
        self.allow_tilde = allow_tilde
        self.stats = {"depth": 0, "delims_with_ph": set(), "adjacent": set(), "ph": 0}

    def ph(self):
        self.stats["ph"] += 1
        return ("ph", "~" if (self.allow_tilde and self.g.chance(0.6)) else "@")

    def atom(self):
        g = self.g
        r = g.r.random()
        if r < 0.3:
            return [("t", g.pick(["a", "foo", "Self", "x9", "None", "r#type", "u8", "String"]))]
        if r < 0.55:
            return [("t", g.pick(["1", "0x1f", "1_000u64", "2.5", '"s"', '"a~b@c"', "'~'", "'@'", 'b"~@"', 'r"~"', 'r#"@~"#', "b'@'", '"\\"@"', "1e3"]))]
        if r < 0.62:
            return [("lt", g.pick(["a", "static", "lbl"]))]
        return [self.ph()]

    def punct_seq(self):
        g = self.g
        s = g.pick(["+", "-", "*", "/", "%", "&", "|", "^", "!", "<", ">", "=", ".", ",", ";", ":", "?", "#", "$",
                    "::", "->", "=>", "==", "!=", "<=", ">=", "&&", "||", "..", "..=", "<<=", ">>=", "+=", "<<", ">>", "..."])
        out = []
        for i, ch in enumerate(s):
            out.append(("p", ch, i < len(s) - 1))
        return out

    def seq(self, depth, n=None):
        g = self.g
        out = []
        for _ in range(n or g.r.randint(1, 5)):
            r = g.r.random()
            if r < 0.22 and depth < 6:
                o = g.pick(["(", "[", "{"])
                inner = self.seq(depth + 1) if g.chance(0.9) else []
                self.stats["depth"] = max(self.stats["depth"], depth + 1)
                if any(n_[0] == "ph" for n_ in inner):
                    self.stats["delims_with_ph"].add(o)
                out.append(("g", o, inner))
            elif r < 0.3:
                # macro call with placeholders inside
                o = g.pick(["(", "[", "{"])
                inner = [self.ph(), ("p", g.pick([";", ","]), False), self.ph()] if g.chance(0.5) else [self.ph()]
                self.stats["delims_with_ph"].add(o)
                self.stats["adjacent"].add("macro")
                out += [("t", g.pick(["m", "vec", "format"])), ("p", "!", False), ("g", o, inner)]
            elif r < 0.38:
                # joint punctuation glued to a placeholder
                p = g.pick(["*", "-", "&", "!"])
                self.stats["adjacent"].add("joint_before")
                out += [("p", p, True), self.ph()]
            elif r < 0.46:
                tail = g.pick([[("p", ">", True), ("p", ">", True), ("p", "=", False), ("t", "1")], [("p", ".", True), ("p", ".", True), ("p", "=", False), ("ph", "@")],
                               [("p", ":", True), ("p", ":", False), ("p", "<", False), ("t", "T"), ("p", ">", False)], [("p", "?", False)], [("p", ".", False), ("t", "clone"), ("g", "(", [])],
                               [("p", ".", False), ("t", "0")]])
                self.stats["adjacent"].add("punct_after")
                out += [self.ph()] + tail
            elif r < 0.52:
                # closure / turbofish
                out += [("p", "|", False), ("t", "q"), ("p", "|", False), ("t", "q"), ("p", "+", False), self.ph()]
                self.stats["adjacent"].add("closure")
            elif r < 0.75:
                out += self.punct_seq()
            else:
                out += self.atom()
        return out


def has_ph(nodes):
    return any(n[0] == "ph" or (n[0] == "g" and has_ph(n[2])) for n in nodes)


def render(nodes):
    out = []
    for n in nodes:
        if n[0] == "t":
            out.append(n[1] + " ")
        elif n[0] == "p":
            out.append(n[1] + ("" if n[2] else " "))
        elif n[0] == "lt":
            out.append("'" + n[1] + " ")
        elif n[0] == "ph":
            out.append(n[1] + " ")
        else:
            out.append(n[1] + " " + render(n[2]) + OPEN[n[1]] + " ")
    return "".join(out)


def flatten(nodes, P, O):
    """substitute and flatten to (text, kind, joint) triples"""
    out = []
    for n in nodes:
        if n[0] == "t":
            out.append((n[1], "t", False))
        elif n[0] == "p":
            out.append((n[1], "p", n[2]))
        elif n[0] == "lt":
            out.append(("'", "p", True))
            out.append((n[1], "t", False))
        elif n[0] == "ph":
            for t in (P if n[1] == "~" else O):
                out.append((t, "raw", False))
        else:
            out.append((n[1], "o", False))
            out += flatten(n[2], P, O)
            out.append((OPEN[n[1]], "c", False))
    return out


def canon(nodes, P, O):
    fl = flatten(nodes, P, O)
    res = []
    for i, (t, k, j) in enumerate(fl):
        if k == "p":
            nxt = fl[i + 1] if i + 1 < len(fl) else None
            nxt_is_punct = nxt is not None and (nxt[1] == "p" or (nxt[1] == "raw" and not (nxt[0][0].isalnum() or nxt[0][0] == "_") and nxt[0] not in ("(", "[", "{", ")", "]", "}")))
            res.append(t + "^" if (j and nxt_is_punct) else t)
        else:
            res.append(t)
    return res


# ---- positions -------------------------------------------------------------------------------------------

def position(g, name, E):
    """build an Item with inline expression text E at position `name`; returns (item, allow_tilde, meaning)
    meaning(kind) -> expected token list for `~` in an impl of that kind, or None when unspecified"""
    braced = "{" + E + "}"
    T = [Instr("map", "trait", ty="A", hint=None, err=None, params=[])]
    TE = T + [Instr("into_existing", "trait", ty="A", hint=None, err=None, params=[])]
    if name in ("field_bare", "field_braced", "field_member_bare", "field_member_braced"):
        member = "zz" if "member" in name else None
        it = Item("struct", "S", shape="named", attrs=TE)
        it.fields = [Field("pre", "i32"), Field("fld", "i32", [Instr("map", "map", container=None, member=member, action=E, braced="braced" in name)]), Field("post", "i32")]
        tgt = member or "fld"
        return it, lambda k: ["value", ".", tgt] if k.startswith("from") else ["self", ".", "fld"]
    if name == "tuple_field":
        it = Item("struct", "S", shape="tuple", attrs=TE)
        it.fields = [Field(None, "i32"), Field(None, "i32", [Instr("map", "map", container=None, member=None, action=E, braced=True)])]
        return it, lambda k: ["value", ".", "1"] if k.startswith("from") else ["self", ".", "1"]
    if name == "child_field":
        it = Item("struct", "S", shape="named", attrs=TE + [Instr("child_parents", "child_parents", container=None, entries=[dict(path="a", ty="Ta", hint=None), dict(path="a.b", ty="Tb", hint=None)])])
        it.fields = [Field("pre", "i32"), Field("fld", "i32", [Instr("child", "child", container=None, path="a.b"), Instr("map", "map", container=None, member="zz", action=E, braced=True)])]
        return it, lambda k: ["value", ".", "a", ".", "b", ".", "zz"] if k.startswith("from") else ["self", ".", "fld"]
    if name == "parent_entry":
        it = Item("struct", "S", shape="named", attrs=TE)
        it.fields = [Field("pre", "i32"), Field("p", "P", [Instr("parent", "parent", container=None, fields=f"[map(zz, {braced})] x, y")])]
        return it, lambda k: ["value", ".", "zz"] if k.startswith("from") else ["self", ".", "p", ".", "x"]
    if name == "ghost_field":
        it = Item("struct", "S", shape="named", attrs=T)
        it.fields = [Field("pre", "i32"), Field("gh", "i32", [Instr("ghost", "ghost", container=None, action=E, braced=True)])]
        return it, None
    if name == "ghosts_entry":
        it = Item("struct", "S", shape="named", attrs=TE + [Instr("ghosts", "ghosts", container=None, entries=[dict(path=None, ident="extra", action=E)])])
        it.fields = [Field("pre", "i32")]
        return it, None
    if name in ("enum_ghosts_ident", "enum_ghosts_destr"):
        # enum-level ghosts (counterpart-only variants): member form `X: {..}` and destructuring form `Y(..): {..}`
        ent = dict(path=None, ident="X", action=E) if name == "enum_ghosts_ident" else dict(path=None, ident=None, destr="Y(..)", action=E)
        it = Item("enum", "S", attrs=T + [Instr("ghosts", "ghosts", container=None, entries=[ent])])
        it.variants = [Variant("U"), Variant("V", "tuple", [Field(None, "i32")])]
        return it, None
    if name in ("vars", "update", "return"):
        par = {"vars": ("vars", [("v1", E)]), "update": ("update", E), "return": ("return", E)}[name]
        it = Item("struct", "S", shape="named", attrs=[Instr("map", "trait", ty="A", hint=None, err=None, params=[par])] + ([Instr("into_existing", "trait", ty="A", hint=None, err=None, params=[par])] if name != "update" else []))
        it.fields = [Field("pre", "i32"), Field("fld", "i32")]
        return it, None
    if name == "default_case":
        it = Item("enum", "S", attrs=[Instr("map_owned", "trait", ty="i32", hint=None, err=None, params=[("default", "=> " + E)])])
        it.variants = [Variant("V0", attrs=[Instr("literal", "literal", container=None, tokens="1")]), Variant("V1", attrs=[Instr("literal", "literal", container=None, tokens="2")])]
        return it, None
    if name == "variant_expr":
        it = Item("enum", "S", attrs=T)
        it.variants = [Variant("U"), Variant("V", "tuple", [Field(None, "i32")], [Instr("map", "map", container=None, member=None, action=E, braced=True)])]
        return it, lambda k: ["S", ":^", ":", "V"] if k.startswith("from") else ["A", ":^", ":", "V"]
    if name in ("vfield_named", "vfield_tuple"):
        it = Item("enum", "S", attrs=T)
        if name == "vfield_named":
            it.variants = [Variant("U"), Variant("V", "named", [Field("pre", "i32"), Field("fld", "i32", [Instr("map", "map", container=None, member="zz", action=E, braced=True)])])]
            return it, lambda k: ["zz"] if k.startswith("from") else ["fld"]
        it.variants = [Variant("U"), Variant("V", "tuple", [Field(None, "i32"), Field(None, "i32", [Instr("map", "map", container=None, member=None, action=E, braced=True)])])]
        return it, lambda k: ["f1"]
    raise ValueError(name)


POSITIONS = ["field_bare", "field_braced", "field_member_bare", "field_member_braced", "tuple_field", "child_field", "parent_entry", "ghost_field", "ghosts_entry",
             "vars", "update", "return", "default_case", "variant_expr", "vfield_named", "vfield_tuple", "enum_ghosts_ident", "enum_ghosts_destr"]
AT_ONLY = {"ghost_field", "ghosts_entry", "vars", "update", "return", "default_case", "enum_ghosts_ident", "enum_ghosts_destr"}
BARE = {"field_bare", "field_member_bare", "update", "return", "default_case"}


def bare_ok(nodes, pos):
    """o2o's argument grammar gives a leading `ident ,` / `path |` / lone ident / leading brace group a different meaning"""
    if not nodes:
        return False
    n0 = nodes[0]
    if n0[0] == "g" and n0[1] == "{":
        return len(nodes) == 1
    if pos in ("field_bare", "field_member_bare"):
        if n0[0] == "t" and (n0[1][0].isalpha() or n0[1][0] == "_" or n0[1][0].isdigit()):
            return False      # an identifier or an integer literal (any radix) in first position is read as the member name / index
        if n0[0] == "p" and n0[1] in (":",):
            return False
    if any(n[0] == "p" and n[1] == "," for n in nodes) and pos in ("field_bare", "field_member_bare"):
        # a top-level comma after a leading member-like token would be read as `member, action`
        return nodes[0][0] in ("ph", "g")
    return True


def kind_of(info):
    return {"from_owned": "from_owned", "from_ref": "from_ref", "into_owned": "owned_into", "into_ref": "ref_into", "into_existing_owned": "owned_into_existing",
            "into_existing_ref": "ref_into_existing"}.get(info.get("kind"), "?")


def run(tier):
    ck = common.Check("C10", tier)
    ck.rule = ("random token trees (nesting of () [] {} to depth 6, string/char/byte/raw literals containing @ and ~, lifetimes, joint punctuation next to placeholders, macros, closures, "
               "turbofish) placed in each of 18 positions (enum-level ghosts in member and destructuring form, member instruction bare/braced, with/without member, tuple field, child field, [..] parent entry, ghost, ghosts, vars, "
               "..update, return, _ => default, variant expression, variant fields) for every kind the position produces; per impl exact equality with the marker expansion in which the "
               "marker is replaced by the independently substituted tree. distinct_nontrivial = distinct (position, kind, max depth, delimiters containing a placeholder, adjacency classes).")
    g = xgen.G(common.rng_for("C10", tier))
    n = 2500 if tier == "quick" else 60000
    # reference expansions per position: {QQ7}, {~}, {@}
    refs = {}
    ref_srcs = []
    for pos in POSITIONS:
        for e in ("QQ7", "~", "@"):
            if e == "~" and pos in AT_ONLY:
                continue
            it, meaning = position(g, pos, "{" + e + "}" if (pos in BARE and pos != "default_case") else e)
            ref_srcs.append((pos, e, it.render(), meaning))
    cases = []
    while len(cases) < n:
        pos = g.pick(POSITIONS)
        tt = TT(g, allow_tilde=pos not in AT_ONLY)
        nodes = tt.seq(0)
        src_e = render(nodes)
        if pos in BARE and pos != "default_case" and not bare_ok(nodes, pos):
            if g.chance(0.5):
                src_e = "{ " + src_e + "}"   # the outer braces are o2o's delimiter and are stripped
            else:
                continue
        elif pos in BARE and pos != "default_case" and len(nodes) == 1 and nodes[0][0] == "g" and nodes[0][1] == "{":
            nodes = nodes[0][2]               # a lone brace group in a bare position *is* the delimiter form
        it, meaning = position(g, pos, src_e)
        cases.append((pos, nodes, tt.stats, it.render()))
    for backend in ("s1", "s2"):
        routs = common.run_x([r[2] for r in ref_srcs], backend)
        ref = {}
        for (pos, e, src, meaning), o in zip(ref_srcs, routs):
            if o["status"] != "ok":
                ck.violation(f"subst|reference_rejected|{pos}|{e}", dict(input=src, outcome=common.brief(o), backend=backend))
                continue
            ref.setdefault(pos, {})[e] = (common.split_items(o["tokens"]), meaning, src)
        learned = {}
        for pos in POSITIONS:
            if "QQ7" not in ref.get(pos, {}):
                continue
            q_items, meaning, qsrc = ref[pos]["QQ7"]
            per = []
            for i, (h, b) in enumerate(q_items):
                full_q = list(h) + list(b)
                ent = {"q": full_q, "kind": kind_of(common.header_info(h)), "P": None, "O": None, "active": "QQ7" in full_q}
                for e, key in (("~", "P"), ("@", "O")):
                    if e in ref[pos]:
                        a_items = ref[pos][e][0]
                        full_a = list(a_items[i][0]) + list(a_items[i][1]) if i < len(a_items) else []
                        if ent["active"]:
                            qi = full_q.index("QQ7")
                            tail = len(full_q) - qi - 1
                            mid = full_a[qi:len(full_a) - tail]
                            if full_a[:qi] != full_q[:qi] or (tail and full_a[len(full_a) - tail:] != full_q[qi + 1:]):
                                ck.violation(f"subst|placeholder_changes_context|{pos}|{e}", dict(marker_input=qsrc, placeholder_input=ref[pos][e][2], backend=backend))
                            ent[key] = mid
                # (2) meaning
                if ent["active"]:
                    kd = ent["kind"]
                    wantO = ["value"] if kd.startswith("from") else ["self"]
                    if ent["O"] is not None and ent["O"] != wantO:
                        ck.violation(f"subst|meaning_of_at|{pos}|{kd}", dict(input=ref[pos]["@"][2], expected=wantO, observed=ent["O"], backend=backend))
                    if meaning and ent["P"] is not None and ent["P"] != meaning(kd):
                        ck.violation(f"subst|meaning_of_tilde|{pos}|{kd}", dict(input=ref[pos]["~"][2], expected=meaning(kd), observed=ent["P"], backend=backend))
                per.append(ent)
            learned[pos] = per
        outs = common.run_x([c[3] for c in cases], backend)
        for (pos, nodes, stats, src), o in zip(cases, outs):
            ck.count()
            if pos not in learned:
                continue
            if o["status"] != "ok":
                ck.cell([pos, "rejected"], nontrivial=False)
                ck.violation(f"subst|expression_rejected|{pos}|{o['status']}", dict(input=src, expression=render(nodes), outcome=common.brief(o), backend=backend))
                continue
            items = common.split_items(o["tokens"])
            per = learned[pos]
            if len(items) != len(per):
                ck.violation(f"subst|impl_count|{pos}", dict(input=src, backend=backend))
                continue
            for (h, b), ent in zip(items, per):
                full = list(h) + list(b)
                if not ent["active"]:
                    if full != ent["q"]:
                        ck.violation(f"subst|inactive_impl_changed|{pos}|{ent['kind']}", dict(input=src, backend=backend))
                    continue
                P = ent["P"] if ent["P"] is not None else ["<no-tilde>"]
                O = ent["O"] if ent["O"] is not None else ["<no-at>"]
                want_mid = canon(nodes, P, O)
                qi = ent["q"].index("QQ7")
                want = ent["q"][:qi] + want_mid + ent["q"][qi + 1:]
                ck.cell([pos, ent["kind"], stats["depth"], sorted(stats["delims_with_ph"]), sorted(stats["adjacent"])], nontrivial=stats["ph"] > 0)
                if full != want:
                    d = common.first_token_diff(want, full)
                    # classify by the token class at the first difference
                    at = d["at"] - qi
                    cls = "inside_expression" if 0 <= at <= len(want_mid) else "outside_expression"
                    ck.violation(f"subst|{cls}|{pos}|{ent['kind']}", dict(input=src, expression=render(nodes), expected_run=common.detok(want_mid), first_difference=d, backend=backend))
                elif len(ck.samples) < 4 and stats["depth"] >= 2 and stats["ph"] >= 2:
                    ck.sample(dict(position=pos, expression=render(nodes), kind=ent["kind"], substituted=common.detok(want_mid), backend=backend))
    if tier == "thorough":
        from vlib import cov
        cov.report(ck, "C10", [c[3] for c in cases])
    return ck.finish()
