"""C11 - generics, lifetimes and where-clauses are carried so the impl type-checks (level R: rustc is the oracle)."""
import re
from vlib import common, xgen, rt, rgen_generic


def run(tier):
    ck = common.Check("C11", tier)
    ck.rule = ("deriving types with parameter lists built from 0-2 lifetimes, 0-2 type parameters (unbounded + #[where_clause] default/dedicated, bounded inline, bounded in the type's own "
               "where clause, with defaults), 0-1 const parameter (with/without default); counterpart paths with the same arguments (also turbofish form); README lifetime scenarios "
               "(dto borrowing from the counterpart; lifetimes only in the counterpart's path) with and without extra type parameters; all 12 kinds, every program instantiated "
               "concretely, run at non-'static borrows of inner-scope locals and compared with reference functions. distinct_nontrivial = distinct (family, sorted parameter-list "
               "features, where-clause form, kind).")
    g = xgen.G(common.rng_for("C11", tier))
    n, shards = (120, 4) if tier == "quick" else (2400, 16)
    cases, specs = [], {}
    for i in range(n):
        gc = rgen_generic.gen_case(g, i)
        code, di, df = rgen_generic.render_case(gc, g)
        gc.inputs = {"i": di, "f": df}
        cases.append(rt.Case(i, code, meta=gc, input_text=di))
        specs[i] = gc
    events, rejected = rt.run_sharded("c11-" + tier, cases, "syn1", shards)
    for c in rejected:
        gc = c.meta
        ck.count()
        ck.cell([gc.family, gc.feats, gc.where_form, "rustc"], nontrivial=False)
        feats = "+".join(sorted({f.split(":")[0] + (":" + f.split(":")[1] if ":" in f else "") for f in gc.feats}))
        ck.violation(f"rustc_rejects|generic|{gc.family}|{feats}|{rt.rustc_sig(c.rejected)}", dict(family=gc.family, features=gc.feats, input=gc.inputs["i"], rustc=[r["rendered"] for r in c.rejected[:2]]))
    for e in events:
        if e.get("fatal"):
            ck.note_inconclusive(f"generated program died rc={e.get('rc')}")
            continue
        if "conv" not in e:
            continue
        ck.count()
        cid = int(re.match(r"c(\d+)", e["case"]).group(1))
        gc = specs[cid]
        ck.cell([gc.family, gc.feats, gc.where_form, e["conv"]], nontrivial=bool(gc.feats))
        if e["got"] != e["want"]:
            ck.violation(f"wrong_value|generic|{gc.family}|{e['conv']}", dict(input=gc.inputs["i"], conversion=e["conv"], got=e["got"], want=e["want"]))
        elif len(ck.samples) < 3 and len(gc.feats) >= 2 and e["draw"] == 0:
            ck.sample(dict(input=gc.inputs["i"], conversion=e["conv"], got=e["got"]))
    ck.extra["programs"] = n
    ck.extra["rustc_rejected_programs"] = len(rejected)
    return ck.finish()
