"""C11 - generics, lifetimes and where-clauses are carried so the impl type-checks (level R: rustc is the oracle)."""
import re
from vlib import common, xgen, rt, rgen_generic


def run(tier):
    ck = common.Check("C11", tier)
    ck.rule = ("deriving types with parameter lists built from 0-2 lifetimes, 0-2 type parameters (unbounded + #[where_clause] default/dedicated, bounded inline, bounded in the type's own "
               "where clause, with defaults), 0-1 const parameter (with/without default); counterpart paths with the same arguments (also turbofish form); README lifetime scenarios "
               "(dto borrowing from the counterpart; lifetimes only in the counterpart's path) with and without extra type parameters; all 12 kinds, every program instantiated "
               "concretely, run at non-'static borrows of inner-scope locals and compared with reference functions. distinct_nontrivial = distinct (family, sorted parameter-list "
               "features, where-clause form, kind).")
    g = xgen.G(common.rng_for("C11", tier))
    n, shards = (120, 4) if tier == "quick" else (2400, 16)
    cases, specs = [], {}
    for i in range(n):
        gc = rgen_generic.gen_case(g, i)
        code, di, df = rgen_generic.render_case(gc, g)
        gc.inputs = {"i": di, "f": df}
        cases.append(rt.Case(i, code, meta=gc, input_text=di))
        specs[i] = gc
    events, rejected = rt.run_sharded("c11-" + tier, cases, "syn1", shards)
    for c in rejected:
        gc = c.meta
        ck.count()
        ck.cell([gc.family, gc.feats, gc.where_form, "rustc"], nontrivial=False)
        feats = "+".join(sorted({f.split(":")[0] + (":" + f.split(":")[1] if ":" in f else "") for f in gc.feats}))
        ck.violation(f"rustc_rejects|generic|{gc.family}|{feats}|{rt.rustc_sig(c.rejected)}", dict(family=gc.family, features=gc.feats, input=gc.inputs["i"], rustc=[r["rendered"] for r in c.rejected[:2]]))
    for e in events:
        if e.get("fatal"):
            ck.note_inconclusive(f"generated program died rc={e.get('rc')}")
            continue
        if "conv" not in e:
            continue
        ck.count()
        cid = int(re.match(r"c(\d+)", e["case"]).group(1))
        gc = specs[cid]
        ck.cell([gc.family, gc.feats, gc.where_form, e["conv"]], nontrivial=bool(gc.feats))
        if e["got"] != e["want"]:
            ck.violation(f"wrong_value|generic|{gc.family}|{e['conv']}", dict(input=gc.inputs["i"], conversion=e["conv"], got=e["got"], want=e["want"]))
        elif len(ck.samples) < 3 and len(gc.feats) >= 2 and e["draw"] == 0:
            ck.sample(dict(input=gc.inputs["i"], conversion=e["conv"], got=e["got"]))
    ck.extra["programs"] = n
    ck.extra["rustc_rejected_programs"] = len(rejected)
    headers_x(ck, g, tier)
    return ck.finish()


# ---------------------------------------------------------------------------------------------------------------
# level X: shape of the impl header, read through an independent parse (xan)

def _nz(s):
    return re.sub(r"\s+", "", s or "")


def headers_x(ck, g, tier):
    from vlib.model import Instr, Field, Variant, Item, ALL_TRAIT_NAMES, kinds_of, is_fallible_name
    from checks.c04 import KIND_TRAIT
    n = 900 if tier == "quick" else 25000
    items, metas = [], []
    for i in range(n):
        r = g.r
        lts = r.choice([[], [], ["'a"], ["'a", "'b"]])
        tps = []
        for nm in r.choice([[], ["T"], ["T"], ["T", "U"]]):
            tps.append(dict(name=nm, bound=r.choice([None, None, "Clone", "Clone + 'static"]), default=None))
        if tps and g.chance(0.2):
            tps[-1]["default"] = "u8"
        const = g.chance(0.2)
        const_default = const and (g.chance(0.4) or any(t["default"] for t in tps))
        lt_decl = list(lts)
        if len(lts) == 2 and g.chance(0.5):
            lt_decl[1] = "'b: 'a"        # a lifetime parameter declared with a bound is still one of the type's lifetimes
        decl = lt_decl + [t["name"] + (": " + t["bound"] if t["bound"] else "") + (" = " + t["default"] if t["default"] else "") for t in tps] + (["const N: usize" + (" = 3" if const_default else "")] if const else [])
        names = list(lts) + [t["name"] for t in tps] + (["N"] if const else [])
        own_where = []
        if tps and g.chance(0.4):
            own_where = [f"{tps[0]['name']}: Ow{g.mark()}"]
        kind = r.choice(["struct", "struct", "enum"])
        it = Item(kind, "S", shape="named", generics=("<" + ", ".join(decl) + ">") if decl else "", where=", ".join(own_where))
        if kind == "struct":
            it.fields = [Field("a", "i32")] + [Field(f"r{j}", f"&{lt} str") for j, lt in enumerate(lts)] + [Field(f"t{j}", t["name"]) for j, t in enumerate(tps)]
        else:
            it.variants = [Variant("V0"), Variant("V1", "tuple", [Field(None, "i32")])]
        # counterparts
        cps = []
        for cpn in r.sample(["A", "B"], r.choice([1, 2])):
            form = r.choice(["plain", "same_args", "own_lt", "own_lt_twice", "two_own_lts", "ty_only", "shared_then_own", "own_between_shared", "static_lt"])
            args, cplts = [], []
            if form == "same_args":
                args = list(names)
                cplts = list(lts)
            elif form == "own_lt":
                args, cplts = ["'x"] + [t["name"] for t in tps], ["'x"]
            elif form == "own_lt_twice":
                args, cplts = ["'x", "'x"], ["'x"]
            elif form == "two_own_lts":
                args, cplts = ["'x", "'y"] + lts, ["'x", "'y"] + lts
            elif form == "ty_only":
                args = [t["name"] for t in tps]
            elif form == "static_lt":
                # 'static is not a parameter: it is neither declared on the impl nor a lifetime the reference has to outlive
                args, cplts = ["'static"] + (["'x"] if g.chance(0.4) else []) + [t["name"] for t in tps], []
                if "'x" in args:
                    cplts = ["'x"]
            elif form == "shared_then_own":
                # lifetimes the type has itself first, a counterpart-only one after them
                args, cplts = lts + ["'x"] + ([t["name"] for t in tps] if g.chance(0.5) else []), lts + ["'x"]
            elif form == "own_between_shared":
                args, cplts = lts[:1] + ["'x"] + lts[1:] + ["'y"], lts[:1] + ["'x"] + lts[1:] + ["'y"]
            path = cpn + (("::" if g.chance(0.2) else "") + "<" + ", ".join(args) + ">" if args else "")
            cps.append(dict(path=path, lts=cplts, form=form))
        taken = set()
        plan = []
        for _ in range(r.randint(1, 4)):
            nm = g.pick(ALL_TRAIT_NAMES)
            if kind == "enum" and "existing" in nm:
                continue
            cp = g.pick(cps)
            fal = is_fallible_name(nm)
            sl = {(k, fal, cp["path"]) for k in kinds_of(nm)}
            if sl & taken:
                continue
            taken |= sl
            it.attrs.append(Instr(nm, "trait", ty=cp["path"], hint=None, err="E" if fal else None, params=[]))
            plan.append((nm, cp, fal))
        if not plan:
            continue
        # where_clause instructions: default and / or dedicated, in random order
        wc = {}
        wattrs = []
        if tps and g.chance(0.5):
            p = f"{tps[0]['name']}: Df{g.mark()}"
            wc[None] = p
            wattrs.append(Instr("where_clause", "where_clause", container=None, preds=p))
        for cp in cps:
            if tps and g.chance(0.4) and any(c is cp for _, c, _ in plan):
                p = f"{tps[-1]['name']}: Dd{g.mark()}"
                wc[cp["path"]] = p
                wattrs.append(Instr("where_clause", "where_clause", container=cp["path"], preds=p))
        r.shuffle(wattrs)
        for w in wattrs:
            it.attrs.insert(r.randint(0, len(it.attrs)), w)
        items.append(it)
        metas.append(dict(lts=lts, names=names, own_where=own_where, wc=wc, plan=plan, decl=decl, feats=sorted({c["form"] for _, c, _ in plan} | ({"own_where"} if own_where else set()) | ({"wc_default"} if None in wc else set()) | ({"wc_dedicated"} if any(k for k in wc) else set()) | ({"const"} if const else set()) | ({"defaults"} if (const_default or any(t["default"] for t in tps)) else set()) | ({"bounds"} if any(t["bound"] for t in tps) else set()))))
    srcs = [it.render() for it in items]
    outs = common.run_x(srcs, "s1", notext=False)
    reps = common.run_xan([o.get("text", "") if o["status"] == "ok" else "" for o in outs])
    for it, m, src, o, rep in zip(items, metas, srcs, outs, reps):
        ck.count()
        ck.cell(["header", it.kind, m["feats"]])
        if o["status"] != "ok" or rep.get("parse") != "ok":
            ck.violation(f"header|not_accepted_or_unparsable|{'+'.join(m['feats'])[:60]}", dict(input=src, outcome=common.brief(o), parse=rep.get("msg")))
            continue
        for item in rep["items"]:
            if item["kind"] != "impl":
                continue
            bad = None
            pn = item["param_names"]
            tr = item["trait_name"]
            fal = tr.startswith("Try")
            base = tr[3:] if fal else tr
            arg = item["trait_args"][0] if item["trait_args"] else ""
            by_ref = arg.strip().startswith("&") if base == "From" else item["self_ref"]
            cptxt = _nz(re.sub(r"^\s*&\s*('\w+)?", "", arg))
            cp = next((c for _, c, f in m["plan"] if _nz(c["path"]).replace("::<", "<") == cptxt.replace("::<", "<")), None)
            if cp is None:
                bad = "counterpart_not_recognised"
            elif "'static" in pn or "'_" in pn:
                bad = "reserved_lifetime_declared"
            elif len(pn) != len(set(pn)):
                bad = "parameter_declared_twice"
            elif [x for x in pn if x in m["names"]] != m["names"]:
                bad = "type_parameters_not_declared_once_in_order"
            elif any("=" in p for p in item["params"]):
                bad = "default_in_impl_parameters"
            elif _nz(item["self_ty"]) != "S" + (("<" + ",".join(m["names"]) + ">") if m["names"] else ""):
                bad = "self_type_not_in_argument_form"
            else:
                used = set(re.findall(r"'\w+", arg + " " + item["self_ty"] + " " + (item["self_lt"] or ""))) - {"'static", "'_"}
                if not used <= set(pn):
                    bad = "undeclared_lifetime"
                else:
                    relevant = m["lts"] if base == "From" else cp["lts"]
                    relevant = list(dict.fromkeys(relevant))
                    want_o2o = by_ref and bool(relevant)
                    has_o2o = "'o2o" in pn
                    if want_o2o != has_o2o:
                        bad = "o2o_lifetime_presence"
                    elif has_o2o:
                        decl = next(p for p in item["params"] if _nz(p).startswith("'o2o"))
                        bounds = set(re.findall(r"'\w+", decl.split(":", 1)[1] if ":" in decl else ""))
                        ref_lt = re.match(r"\s*&\s*('\w+)", arg).group(1) if (base == "From" and re.match(r"\s*&\s*('\w+)", arg)) else item["self_lt"]
                        if bounds != set(relevant):
                            bad = "o2o_lifetime_bounds"
                        elif ref_lt != "'o2o":
                            bad = "o2o_lifetime_not_on_the_reference"
                    if not bad:
                        want_preds = set(_nz(x) for x in m["own_where"])
                        w = m["wc"].get(cp["path"], m["wc"].get(None))
                        if w:
                            want_preds.add(_nz(w))
                        got = set(x for x in _nz((item["where"] or "").replace("where", "", 1)).split(",") if x)
                        if got != want_preds:
                            bad = "where_clause"
            if bad:
                ck.violation(f"header|{bad}|{tr}|{cp['form'] if cp else '?'}", dict(input=src, impl=item["text"][:500], params=item["params"], where=item["where"], expected_where=sorted(m["own_where"]) + [m["wc"].get(cp["path"] if cp else None, m["wc"].get(None))]))
