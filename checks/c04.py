"""C04 - each trait instruction yields exactly the documented set of trait impls.

Oracle table transcribed from README lines 190-264 (vlib/model.TRAIT_SHORT + the 12 basic kinds), not from attr.rs.
Level X: impl headers of the expansion are read (token-level header parser; xan cross-checks the parse when the
output is parseable) and compared as a multiset with the table. Level R (vlib/rt): impl-presence probes.
"""
import re
from collections import Counter
from vlib import common, xgen
from vlib.model import Instr, Field, Variant, Item, FALLIBLE_NAME, INFALLIBLE_NAME, kinds_of, is_fallible_name, ALL_TRAIT_NAMES

CP_FORMS = ["A", "a::b::A", "::a::A", "A<T>", "A::<u8>", "A<'x>", "A<'x, u8>", "(i32, String)", "B", "c::D<u8, i8>"]
ERR_FORMS = ["E", "e::E", "E<u8>", "Bx<dyn Er>" if False else "Bx<Dn>", "::e::Err<'static, u8>", "std::io::Error"]

# README 190-230: kind -> (trait, impl is for a reference / takes a reference)
KIND_TRAIT = {
    "from_owned": ("From", False), "from_ref": ("From", True), "owned_into": ("Into", False), "ref_into": ("Into", True),
    "owned_into_existing": ("IntoExisting", False), "ref_into_existing": ("IntoExisting", True),
}


def norm_ty(s):
    if isinstance(s, (list, tuple)):
        s = "".join(x[0] if (len(x) == 2 and x.endswith("^")) else x for x in s)
    s = re.sub(r"\s+", "", s)
    return s.replace("::<", "<")


def expected(instrs, self_name):
    exp = Counter()
    for ins in instrs:
        fal = is_fallible_name(ins.name)
        for k in kinds_of(ins.name):
            tr, ref = KIND_TRAIT[k]
            exp[(("Try" if fal else "") + tr, ref, norm_ty(ins.f["ty"]), self_name, norm_ty(ins.f["err"]) if fal else None)] += 1
    return exp


def observed(tokens):
    obs = Counter()
    bad = []
    for h, b in common.split_items(tokens):
        info = common.header_info(h)
        if not info.get("ok"):
            bad.append(common.detok(h)[:120])
            continue
        err = None
        # `type Error = ... ;` at depth 1 of the body
        d = 0
        i = 0
        while i < len(b):
            t = b[i]
            if t in ("{", "(", "["):
                d += 1
            elif t in ("}", ")", "]"):
                d -= 1
            elif d == 1 and t == "type" and b[i + 1:i + 3] == ["Error", "="]:
                j = i + 3
                while j < len(b) and b[j] != ";":
                    j += 1
                err = norm_ty(b[i + 3:j])
                break
            i += 1
        st = norm_ty(info["self_ty"])
        obs[(info["trait"], info["by_ref"], norm_ty(info["counterpart"]), st, err)] += 1
        # the trait must be spelled through the documented paths
        tp = "".join(x.rstrip("^") for x in info["trait_path"])
        want = "::core::convert::" + info["trait"] if info["trait"] in ("From", "TryFrom", "Into", "TryInto") else "o2o::traits::" + info["trait"]
        if tp != want:
            bad.append(f"trait path {tp}")
    return obs, bad


def gen_case(g, kind):
    r = g.r
    ncp = r.choice([1, 1, 2, 3])
    cps = r.sample(CP_FORMS, ncp)
    if kind == "enum":
        cps = [c for c in cps if not c.startswith("(")] or ["A"]
    instrs = []
    taken = set()
    single = g.chance(0.25)
    names = list(ALL_TRAIT_NAMES)
    n = 1 if single else r.randint(1, 6)
    tries = 0
    while len(instrs) < n and tries < 40:
        tries += 1
        nm = r.choice(names)
        cp = r.choice(cps)
        fal = is_fallible_name(nm)
        slots = {(k, fal, cp) for k in kinds_of(nm)}
        if slots & taken:
            continue
        taken |= slots
        instrs.append(Instr(nm, "trait", ty=cp, hint=None, err=r.choice(ERR_FORMS) if fal else None, params=[]))
    if g.chance(0.2):
        # `repeat()` on at most one instruction per name (an instruction name and its try_ twin are different names and may each carry one):
        # nothing is there to be inherited, the set of impls stays what the instructions say
        for nm in sorted({a.name for a in instrs}):
            if g.chance(0.6):
                r.choice([a for a in instrs if a.name == nm]).f["params"] = [("repeat", [])]
    it = Item(kind, "S", shape="named")
    if kind == "struct":
        it.fields = [Field("a", "i32"), Field("b", "u8")]
    else:
        it.variants = [Variant("V0"), Variant("V1", "tuple", [Field(None, "i32")]), Variant("V2", "named", [Field("x", "u8")])]
    it.attrs = instrs
    return it, cps


def run(tier):
    ck = common.Check("C04", tier)
    ck.rule = ("structs and enums carrying each of the 24 trait-instruction names alone and random multisets (1-6) over 1-3 counterparts (plain / qualified / generic / turbofish / "
               "lifetime / bare-tuple forms) with plain, qualified and generic error types, each multiset in two random orders; the multiset of "
               "(trait, by-ref, counterpart, self type, Error type) read off the impl headers must equal the README table. distinct_nontrivial = distinct "
               "(sorted instruction-name multiset, counterpart forms, error forms, struct|enum).")
    g = xgen.G(common.rng_for("C04", tier))
    n = 900 if tier == "quick" else 25000
    cases = []
    for kind in ("struct", "enum"):
        for nm in ALL_TRAIT_NAMES:
            for cp in (CP_FORMS if tier == "thorough" else CP_FORMS[:5]):
                if kind == "enum" and cp.startswith("("):
                    continue
                it = gen_case(g, kind)[0]
                it.attrs = [Instr(nm, "trait", ty=cp, hint=None, err=g.pick(ERR_FORMS) if is_fallible_name(nm) else None, params=[])]
                cases.append((it, "alone"))
    for i in range(n):
        it, _ = gen_case(g, g.pick(["struct", "enum"]))
        cases.append((it, "multi"))
        it2 = it.copy()
        g.r.shuffle(it2.attrs)
        cases.append((it2, "reordered"))
    srcs = [c[0].render() for c in cases]
    for backend in ("s1", "s2"):
        outs = common.run_x(srcs, backend, notext=False)
        texts = [o.get("text", "") if o["status"] == "ok" else "" for o in outs]
        xan = common.run_xan(texts) if backend == "s1" else [None] * len(outs)
        prev = None
        for (it, cls), src, o, xa in zip(cases, srcs, outs, xan):
            ck.count()
            names = sorted(a.name for a in it.attrs)
            ck.cell([names, sorted({re.sub(r"\w+", "w", a.f["ty"]) for a in it.attrs}), sorted({re.sub(r"\w+", "w", a.f["err"] or "") for a in it.attrs}), it.kind], nontrivial=len(names) >= 2 or cls == "alone")
            if o["status"] != "ok":
                sg = common.panic_sig(o) if o["status"] == "panic" else o["status"] + ":" + re.sub(r"[0-9]+", "N", (o.get("msgs") or [""])[-1])[:60]
                ck.violation(f"impl_set|not_accepted|{it.kind}|{sg}", dict(input=src, outcome=common.brief(o), backend=backend))
                prev = None
                continue
            exp = expected(it.attrs, "S")
            obs, bad = observed(o["tokens"])
            if bad:
                ck.violation(f"impl_set|header|{bad[0][:50]}", dict(input=src, bad=bad, backend=backend))
            if obs != exp:
                missing = sorted(exp - obs, key=str)
                extra = sorted(obs - exp, key=str)
                # classify
                what = []
                for m in missing:
                    for e in extra:
                        if m[:4] == e[:4] and m[4] != e[4]:
                            what.append("error_type_differs:" + ("generic" if "<" in (m[4] or "") else "plain"))
                if not what:
                    what.append(f"missing={len(missing)},extra={len(extra)}:" + ",".join(sorted({m[0] for m in missing} | {e[0] for e in extra})))
                ck.violation(f"impl_set|{sorted(set(what))[0]}|{it.kind}", dict(input=src, missing=missing, extra=extra, backend=backend))
            elif xa is not None and xa.get("parse") == "ok":
                # cross-check with the real parser's view of the headers
                xobs = Counter()
                for item in xa["items"]:
                    if item["kind"] != "impl":
                        continue
                    nm = item["trait_name"]
                    is_from = nm in ("From", "TryFrom")
                    arg = item["trait_args"][0] if item["trait_args"] else ""
                    by_ref = arg.startswith("&") if is_from else item["self_ref"]
                    arg = re.sub(r"^&\s*('\w+\s*)?", "", arg)
                    err = next((norm_ty(s["ty"]) for s in item["items"] if s["kind"] == "type" and s["name"] == "Error"), None)
                    xobs[(nm, by_ref, norm_ty(arg), norm_ty(item["self_ty"]), err)] += 1
                if xobs != exp:
                    ck.violation("impl_set|xan_disagrees_with_table", dict(input=src, xan=sorted(xobs, key=str), expected=sorted(exp, key=str)))
            if cls == "reordered" and prev is not None and prev[0] == "ok":
                if common.items_multiset(prev[1]) != common.items_multiset(o["tokens"]):
                    ck.violation(f"impl_set|order_dependent|{it.kind}", dict(input=src, other_order=prev[2], backend=backend))
            prev = (o["status"], o["tokens"], src) if cls == "multi" else None
            if len(ck.samples) < 3 and len(names) >= 3 and obs == exp:
                ck.sample(dict(input=src, impls=[list(map(str, k)) for k in sorted(obs, key=str)], backend=backend))
    try:
        from vlib import rt_probe
        rt_probe.c04_presence(ck, g, tier)
    except ImportError:
        ck.note_inconclusive("level-R impl-presence probes not built")
    return ck.finish()
