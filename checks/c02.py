"""C02 - enum conversions map each variant and payload field to its designated target (level R)."""
import re
from vlib import common, xgen, rt, rgen_enum


def run(tier):
    ck = common.Check("C02", tier)
    ck.rule = ("enums with 1-7 variants (unit / tuple / named, random order) mapped to a counterpart enum: variant rename (map / from+into / map_owned+map_ref), type hints switching "
               "forms (as () / {} / Unit), payload designations (same, rename, ~ expressions with different owned / by-ref constants, ghost payload fields with defaults, "
               "variant-level #[ghosts] for counterpart-only payload fields), S-only #[ghost] variants (value / panic / Err / no default + `_ =>`), counterpart-only variants via "
               "enum-level #[ghosts] (member and destructuring forms, bare #[ghosts] + default case); From-only enums whose positional payloads are addressed by explicit permuted index with and without expressions; every variant of both sides x draws x From/Into owned/by-ref, fallible twin. "
               "distinct_nontrivial = distinct (source variant form, counterpart form, kind, fallibility, variant designation, payload designation set) in enums with >=2 variants.")
    g = xgen.G(common.rng_for("C02", tier))
    n, draws, shards = (150, 4, 4) if tier == "quick" else (3000, 12, 16)
    cases, specs = [], {}
    for i in range(n):
        ec = rgen_enum.gen_enum_case(g, i, dict(permuted_into=True) if i % 15 == 11 else None)
        code, di, df, kinds = rgen_enum.render_case(ec, g, draws)
        ec.inputs = {"i": di, "f": df}
        cases.append(rt.Case(i, code, meta=ec, input_text=di))
        specs[i] = ec
    events, rejected = rt.run_sharded("c02-" + tier, cases, "syn1", shards)
    for c in rejected:
        ec = c.meta
        ck.count()
        ck.violation(f"rustc_rejects|enum|{rt.rustc_sig(c.rejected)}", dict(input=ec.inputs["i"], input_fallible_twin=ec.inputs["f"], rustc=[r["rendered"] for r in c.rejected[:3]]))
    for e in events:
        if e.get("fatal"):
            ck.note_inconclusive(f"generated program died rc={e.get('rc')} after case {e.get('after')}")
            continue
        if "conv" not in e:
            continue
        ck.count()
        cid = int(re.match(r"c(\d+)", e["case"]).group(1))
        fal = e["case"].endswith("f")
        ec = specs[cid]
        kind = e["conv"][4:] if e["conv"].startswith("try_") else e["conv"]
        m = re.match(r"(\w+)", e["src"])
        vname = m.group(1) if m else "?"
        v = next((x for x in ec.vs if (x.name if not kind.startswith("from") else x.tname) == vname and (x.ghost is None or not kind.startswith("from"))), None)
        if v is not None:
            vd = "ghost:" + v.ghost["mode"] if v.ghost else ("rename:" + v.rename_form if v.tname != v.name else "same")
            key = [v.shape, v.tshape, kind, fal, vd, sorted({f.desig for f in v.fields}) + (["t_only"] if v.t_only else []) + (["permuted_index"] if v.permuted else [])]
        else:
            t = next((x for x in ec.t_only if x.name == vname), None)
            key = ["counterpart_only", t.shape if t else "?", kind, fal, t.mode if t else "?", t.form if t else "?"]
        ck.cell(key, nontrivial=len(ec.vs) >= 2)
        pr = e.get("probes", [])
        probes_ok = len(pr) % 2 == 0 and pr[:len(pr) // 2] == pr[len(pr) // 2:]
        if e["got"] != e["want"] or not probes_ok:
            what = "panic" if e["got"].startswith("PANIC") and not e["want"].startswith("PANIC") else "value" if e["got"] != e["want"] else "wrong_default_evaluated"
            sig = f"wrong_{what}|enum|{key[0]}->{key[1]}|{kind}|{key[4]}"
            if "permuted_into" in ec.flags and v is not None and v.permuted and not kind.startswith("from") and what == "value":
                sig = "region|payload_index_permuted|wrong_value|into"
            ck.violation(sig, dict(input=ec.inputs["f" if fal else "i"], conversion=e["conv"], source=e["src"], got=e["got"], want=e["want"], probes=pr))
        elif len(ck.samples) < 4 and v is not None and len(v.fields) >= 2 and e["draw"] == 0:
            ck.sample(dict(input=ec.inputs["f" if fal else "i"], conversion=e["conv"], source=e["src"], got=e["got"]))
    ck.extra["programs"] = n
    ck.extra["rustc_rejected_programs"] = len(rejected)
    if tier == "thorough":
        from vlib import cov
        cov.report(ck, "C02", cov.derive_inputs([x for sc in specs.values() for x in sc.inputs.values()]))
    return ck.finish()
