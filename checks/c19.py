"""C19 - expansion is a deterministic function of the input.

Every input is expanded 1 + 8 times inside one process (the 8 on fresh threads => fresh RandomState keys)
and again in 3 further fresh processes with different environments; tokens / *ordered* diagnostics must be
identical. Thorough adds Miri hash-seed control (exactly replayable witnesses).
"""
import json
import os
import subprocess
import tempfile
from vlib import common, xgen, faults


def multi_fault_items(g, n, kmin=2, kmax=8):
    res = []
    names = [x for x in faults.INJECTORS if x not in ("repeat_conflict", "no_trait")]
    p_au, g.allow_unknown_p = getattr(g, "allow_unknown_p", 0.0), 0.0      # allow_unknown changes what a misplaced bare instruction means
    while len(res) < n:
        it = xgen.gen(g)
        k = g.r.randint(kmin, kmax)
        applied = []
        for _ in range(k):
            nm = g.pick(names)
            f = faults.INJECTORS[nm](it, g, g.pick(faults.POSITIONS), g.pick(["bare", "o2o"]))
            if f is not None:
                applied.append(f.key())
        if len(applied) >= 2:
            it.meta["faults"] = applied
            res.append(it)
    g.allow_unknown_p = p_au
    return res


def outcome_key(o):
    if o["status"] == "ok":
        return ("ok", tuple(o["tokens"]))
    if o["status"] == "err":
        return ("err", tuple(o["msgs"]))
    return (o["status"], o.get("msg"), o.get("func"))


def run(tier):
    ck = common.Check("C19", tier)
    ck.rule = ("inputs: valid inputs of all families + inputs breaking 2..8 rules at once; each expanded 9x in one process (8 on fresh threads) and in 3 more "
               "processes with different environments (locale, time zone, and every cargo / rustc variable a proc-macro process sees, set to crate names, profile names and flags), on both back-ends. distinct_nontrivial = distinct inputs whose outcome has >=2 diagnostics or whose "
               "expansion has >=2 impls (single-message / single-impl inputs cannot be reordered and count as trivial).")
    g = xgen.G(common.rng_for("C19", tier))
    g.allow_unknown_p = 0.06
    nvalid, nfault = (600, 1200) if tier == "quick" else (6000, 14000)
    items = [xgen.gen(g) for _ in range(nvalid)] + multi_fault_items(g, nfault)
    # interleave: what an expansion leaves behind (process- or thread-wide state) must not reach the next one, whatever the next one is
    g.r.shuffle(items)
    srcs = [it.render() for it in items]
    # what cargo / rustc export to a proc-macro's process, set to the values a crate-name / profile test would compare with
    cargo_names = ["CARGO_CRATE_NAME", "CARGO_PKG_NAME", "CARGO_BIN_NAME", "CARGO_PRIMARY_PACKAGE", "CARGO_MANIFEST_DIR", "CARGO_PKG_VERSION", "CARGO_PKG_VERSION_MAJOR", "OUT_DIR", "PROFILE",
                   "DEBUG", "OPT_LEVEL", "TARGET", "HOST", "RUSTFLAGS", "CARGO_ENCODED_RUSTFLAGS", "CARGO_FEATURE_SYN", "CARGO_FEATURE_SYN1", "CARGO_FEATURE_SYN2", "CARGO_FEATURE_STD",
                   "CARGO_CFG_TEST", "CARGO_CFG_DEBUG_ASSERTIONS", "RUSTC_BOOTSTRAP", "RUST_MIN_STACK", "CARGO", "RUSTC", "RUSTDOC", "DOCS_RS", "CI", "O2O_DEBUG", "O2O"]
    envs = [None, dict({"LANG": "tr_TR.UTF-8", "TZ": "Asia/Kathmandu", "O2O_RANDOM_VAR": str(g.r.random())}, **{n_: "o2o" for n_ in cargo_names}),
            dict({"LC_ALL": "C", "TZ": "UTC", "HOME": "/nonexistent", "RUST_BACKTRACE": "0"}, **{n_: "1" for n_ in cargo_names}),
            dict({"LANG": "ja_JP.UTF-8", "COLUMNS": "7", "RUST_LOG": "trace"}, **{n_: v_ for n_, v_ in zip(cargo_names, ["o2o_impl", "o2o-macros", "release", "true", "debug", "test", "0", "o2o_tests"] * 4)})]
    for backend in ("s1", "s2"):
        base = common.run_x(srcs, backend, reps=8)
        others = [common.run_x(srcs, backend, reps=0, env_extra=e, nproc=(5 + 3 * i)) for i, e in enumerate(envs[1:])]
        for i, (it, src, o) in enumerate(zip(items, srcs, base)):
            ck.count(9 + len(others))
            k0 = outcome_key(o)
            nt = (o["status"] == "err" and len(o["msgs"]) >= 3) or (o["status"] == "ok" and o["tokens"].count("impl") >= 2)
            if nt:
                ck.cell(f"{backend}:{i}")
            else:
                ck.cell(f"{backend}:{i}", nontrivial=False)
            diffs = []
            for oo in o.get("other_outcomes", []):
                diffs.append(("same-process fresh thread", oo))
            for j, res in enumerate(others):
                if outcome_key(res[i]) != k0:
                    diffs.append((f"fresh process env#{j + 1}", res[i]))
            if diffs:
                kinds = set()
                for where, oo in diffs:
                    if o["status"] == "err" and oo.get("status") == "err" and sorted(o["msgs"]) == sorted(oo.get("msgs", [])):
                        kinds.add("diagnostics_reordered")
                    elif o["status"] == "ok" and oo.get("status") == "ok":
                        kinds.add("tokens_differ")
                    else:
                        kinds.add(f"outcome_differs:{o['status']}/{oo.get('status')}")
                for kd in sorted(kinds):
                    ck.violation(f"nondeterministic|{kd}", dict(input=src, backend=backend, first=o if o["status"] != "ok" else "ok(tokens)", differing=[(w, x if x.get("status") != "ok" else "ok(other tokens)") for w, x in diffs[:3]],
                                                               faults=it.meta.get("faults")))
            elif len(ck.samples) < 3 and nt:
                ck.sample(dict(input=src, backend=backend, executions=9 + len(others), outcome=(o["msgs"] if o["status"] == "err" else f"ok, {o['tokens'].count('impl')} impls, {len(o['tokens'])} tokens")))
    ck.cells = {"inputs_valid": nvalid, "inputs_multi_fault": nfault}
    if tier == "thorough":
        miri_slice(ck, [s for it, s in zip(items, srcs) if it.meta.get("faults")][:24])
    if tier == "thorough":
        from vlib import cov
        cov.report(ck, "C19", srcs)
    return ck.finish()


def miri_slice(ck, srcs, seeds=(0, 1, 2, 3)):
    """Hash-seed control: under Miri's isolation RandomState keys come from -Zmiri-seed, so the process-level
    hash seed becomes an input and a disagreement is exactly replayable."""
    crate = common.harness_dir("xdrv")
    tgt = os.path.join(common.WORK, "tgt-miri")
    results = {}
    reqs = [json.dumps({"id": i, "src": s, "reps": 0, "notext": True}) for i, s in enumerate(srcs)]

    def one(seed):
        # under Miri's isolation stdin is not available, so requests travel as arguments; isolation is what makes
        # RandomState take its keys from Miri's own seeded RNG
        env = dict(common.ENV, MIRIFLAGS=f"-Zmiri-seed={seed}")
        try:
            p = subprocess.run(["cargo", "+nightly", "miri", "run", "--offline", "--features", "s1", "--target-dir", tgt, "--"] + reqs, cwd=crate, env=env,
                               stdout=subprocess.PIPE, stderr=subprocess.PIPE, timeout=3000)
        except subprocess.TimeoutExpired:
            return seed, None, "timeout"
        outs = []
        for l in p.stdout.decode().split("\n"):
            if l.strip().startswith("{"):
                try:
                    outs.append(json.loads(l))
                except json.JSONDecodeError:
                    pass
        return seed, outs, p.stderr.decode()[-500:]

    from concurrent.futures import ThreadPoolExecutor
    with ThreadPoolExecutor(max_workers=len(seeds)) as ex:
        for seed, outs, err in ex.map(one, seeds):
            if outs is None or len(outs) != len(srcs):
                ck.note_inconclusive(f"miri seed {seed}: {len(outs or [])}/{len(srcs)} answers ({err[-200:]})")
                continue
            results[seed] = outs
    if len(results) >= 2:
        ss = sorted(results)
        for i, s in enumerate(srcs):
            keys = {sd: outcome_key(results[sd][i]) for sd in ss}
            ck.count(len(ss))
            if len(set(keys.values())) > 1:
                a = ss[0]
                b = next(sd for sd in ss if keys[sd] != keys[a])
                ck.violation("nondeterministic|diagnostics_reordered" if sorted(map(str, keys[a][1])) == sorted(map(str, keys[b][1])) else "nondeterministic|miri_seeds_differ",
                             dict(input=s, miri_seeds=[a, b], outcomes=[results[a][i], results[b][i]],
                                  replay=f"MIRIFLAGS=-Zmiri-seed={{{a},{b}}} cargo +nightly miri run --features s1  (harness/xdrv, input on stdin)"))
    ck.extra["miri"] = {"seeds": sorted(results), "inputs": len(srcs)}
