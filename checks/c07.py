"""C07 - owned, by-reference, fallible and into-existing flavours of a mapping agree.

Agreement oracle (no reference function is consulted): the struct, enum and flattened families are generated with
*the same instructions for every flavour*, the twins `inf` / `fal` get identical source values, and the event log is
compared pairwise per (case, draw).
"""
import re
from vlib import common, xgen, rt, rgen, rgen_enum, rgen_flat


def run(tier):
    ck = common.Check("C07", tier)
    ck.rule = ("flavour groups = sibling modules with identical fields and instructions requesting {owned, by-ref} x {infallible, fallible} x {from, into, into_existing} for struct pairs "
               "(all C01 cells, one member may carry `chk(~, id)?`), enums, child / parent / bare-parent flattenings; pairs compared on equal inputs: by-ref vs owned, try_X vs Ok(X), "
               "`?` error of the user expression surfaces as Err(that error) exactly when it fires, into_existing vs into on fully mapped counterparts, unmapped fields vs their prior "
               "value. distinct_nontrivial = distinct (family/cell, pair of flavours, features: chk / ghosts / untouched / post-init) with >=2 draws of different outcome.")
    g = xgen.G(common.rng_for("C07", tier))
    n, draws, shards = (210, 6, 4) if tier == "quick" else (3600, 18, 16)
    cases, specs = [], {}
    for i in range(n):
        fam = ["struct", "struct", "struct", "enum", "flat", "flat"][i % 6]
        if fam == "struct":
            sc = rgen.gen_struct_case(g, i, dict(uniform=True, chk=True, existing_only=(i % 12 == 0)))
            code, di, df, _ = rgen.render_case(sc, g, draws)
            sc.family, sc.inputs = "struct:" + sc.cell, {"i": di, "f": df}
            m = sc
        elif fam == "enum":
            m = rgen_enum.gen_enum_case(g, i, dict(uniform=True))
            code, di, df, _ = rgen_enum.render_case(m, g, draws)
            m.family, m.inputs = "enum", {"i": di, "f": df}
        else:
            m = rgen_flat.gen_case(g, i)
            code, di, df = rgen_flat.render_case(m, g, draws)
            m.family, m.inputs = "flat:" + m.family, {"i": di, "f": df}
        cases.append(rt.Case(i, code, meta=m, input_text=di))
        specs[i] = m
    events, rejected = rt.run_sharded("c07-" + tier, cases, "syn1", shards)
    for c in rejected:
        ck.count()
        flags = getattr(c.meta, "flags", set())
        sig = f"rustc_rejects|{c.meta.family}|{rt.rustc_sig(c.rejected)}" if not flags else "region|" + "+".join(sorted(flags)) + "|rustc_rejects"
        ck.violation(sig, dict(input=c.meta.inputs["i"], rustc=[r["rendered"] for r in c.rejected[:2]]))
    # group events: (cid, draw, src) -> {(module, conv): got}
    groups = {}
    for e in events:
        if e.get("fatal"):
            ck.note_inconclusive(f"generated program died rc={e.get('rc')}")
            continue
        if "conv" not in e:
            continue
        cid = int(re.match(r"c(\d+)", e["case"]).group(1))
        mod = "f" if e["case"].endswith("f") else "i"
        src = e["src"] if specs[cid].family == "enum" else ""
        groups.setdefault((cid, e["draw"], src), {})[(mod, e["conv"])] = e
    outcomes = {}

    def cmp(cid, a, b, ga, gb, label, feats):
        m = specs[cid]
        kc = getattr(m, "kind_classes", None)
        if kc and kc[a.replace("try_", "")] != kc[b.replace("try_", "")]:
            return True   # the instructions give these two kinds different designations (kind-split #[parent(..)] entries): not flavours of one mapping
        ck.count()
        key = (m.family, label, tuple(feats))
        outcomes.setdefault(key, set()).add(ga)
        if ga != gb:
            flags = getattr(m, "flags", set())
            sig = f"flavours_disagree|{m.family}|{label}" if not flags else "region|" + "+".join(sorted(flags)) + f"|flavours_disagree|{label.split(':')[0]}"
            ck.violation(sig, dict(input=m.inputs["i"], input_fallible=m.inputs["f"], pair=[a, b], source=groups_src.get((cid, a), ""), first=ga, second=gb))
            return False
        return True

    groups_src = {}
    for (cid, draw, src), evs in groups.items():
        m = specs[cid]
        feats = []
        if getattr(m, "chk", None) is not None:
            feats.append("chk")
        if m.family.startswith("struct") and any(t.untouched for t in m.tf):
            feats.append("untouched")
        if m.family.startswith("struct") and any(t.src is None and t.ghost for t in m.tf):
            feats.append("ghosts")
        if m.family == "flat:bare":
            feats.append("post_init")
        g_ = {k: v["got"] for k, v in evs.items()}
        for k, v in evs.items():
            groups_src[(cid, k[1])] = v["src"]
        for mod, pre in (("i", ""), ("f", "try_")):
            # by-ref vs owned
            for a, b in (("from_owned", "from_ref"), ("owned_into", "ref_into"), ("owned_into_existing", "ref_into_existing")):
                if (mod, pre + a) in g_ and (mod, pre + b) in g_:
                    cmp(cid, pre + a, pre + b, g_[(mod, pre + a)], g_[(mod, pre + b)], f"ref_vs_owned:{a.replace('owned_', '').replace('_owned', '')}", feats)
            # into_existing vs into (fully mapped counterparts only)
            full = not ("untouched" in feats) and not (m.family == "flat:bare" and m.extra)
            if full:
                for a, b in (("owned_into", "owned_into_existing"), ("ref_into", "ref_into_existing")):
                    if (mod, pre + a) in g_ and (mod, pre + b) in g_:
                        cmp(cid, pre + a, pre + b, g_[(mod, pre + a)], g_[(mod, pre + b)], "existing_vs_into", feats)
            # unmapped fields keep their prior value
            for k in list(evs):
                if k[0] == mod and k[1].startswith("untouched_"):
                    ck.count()
                    if evs[k]["got"] != evs[k]["want"]:
                        ck.violation(f"unmapped_field_clobbered|{m.family}", dict(input=m.inputs[mod], conversion=k[1], after=evs[k]["got"], before=evs[k]["want"]))
                    outcomes.setdefault((m.family, "untouched", tuple(feats)), set()).add(evs[k]["got"])
        # fallible vs infallible twin
        chk = evs.get(("f", "chk_inputs"))
        for conv in ("from_owned", "from_ref", "owned_into", "ref_into", "owned_into_existing", "ref_into_existing"):
            if ("i", conv) not in g_ or ("f", "try_" + conv) not in g_:
                continue
            gi, gf = g_[("i", conv)], g_[("f", "try_" + conv)]
            if chk is not None:
                t_fires, s_fires = chk["got"].split(",")
                fires = (t_fires if conv.startswith("from") else s_fires) == "true"
                if fires:
                    ck.count()
                    want = f"Err(Er({chk['want']}))"
                    outcomes.setdefault((m.family, "error_surfaces", tuple(feats)), set()).add(gf)
                    if gf != want:
                        ck.violation(f"question_mark_error_not_surfaced|{m.family}|{conv}", dict(input=m.inputs["f"], conversion="try_" + conv, got=gf, want=want))
                    continue
            if gi.startswith("PANIC") and (gf.startswith("Err(") or gf == gi):
                continue  # a diverging default (panic! in the infallible twin, Err(..)? or the same panic in the fallible one) is not a common value
            cmp(cid, conv, "try_" + conv, "Ok(" + gi + ")", gf, "try_vs_plain:" + ("from" if conv.startswith("from") else "existing" if conv.endswith("existing") else "into"), feats)
    for key, vals in outcomes.items():
        ck.cell([key[0], key[1], list(key[2])], nontrivial=len(vals) >= 2)
    ck.sample(dict(note="pairs are compared inside one (case, draw) group", example_group={f"{k[0]}:{k[1]}": v["got"] for k, v in list(groups.items())[0][1].items()}, input=specs[list(groups)[0][0]].inputs["i"]))
    ck.extra["programs"] = n
    return ck.finish()
