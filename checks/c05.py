"""C05 - the most specific applicable member instruction wins; others never interfere.

A 30-line independent implementation of the priority chain *as worded in the property statement* predicts, per
generated impl, which instruction's unique marker must appear on the member's line. Instructions are generated
slot-disjoint (no two equally specific for the same (kind, fallibility, counterpart)), which the statement does not rank.
"""
import re
from vlib import common, xgen, xform
from vlib.model import Instr, Field, Variant, Item, kinds_of, is_fallible_name, KINDS

MAP_NAMES = xgen.MEMBER_MAP_NAMES
GHOSTS = {"ghost": KINDS, "ghost_owned": ["from_owned", "owned_into", "owned_into_existing"], "ghost_ref": ["from_ref", "ref_into", "ref_into_existing"]}
INTO_OF = {"owned_into_existing": "owned_into", "ref_into_existing": "ref_into"}


class MI:
    """a member instruction with its marker"""

    def __init__(self, name, container, n):
        self.name, self.container, self.n = name, container, n
        self.ghost = name in GHOSTS
        if self.ghost:
            self.slots = {("ghost", k, container) for k in GHOSTS[name]}
        else:
            f = is_fallible_name(name)
            self.slots = {(k, f, container) for k in kinds_of(name)}

    def covers(self, kind, fallible):
        return (not self.ghost) and any(s[0] == kind and s[1] == fallible for s in self.slots)


def predict(instrs, kind, fallible, cp):
    """-> set of acceptable winners (MI or None) following the statement's wording"""
    def pick(pred):
        d = [i for i in instrs if i.container == cp and pred(i)]
        if d:
            return d[0]
        d = [i for i in instrs if i.container is None and pred(i)]
        return d[0] if d else None
    g = pick(lambda i: i.ghost and ("ghost", kind, i.container) in i.slots)
    if g:
        return {g}
    w = pick(lambda i: i.covers(kind, fallible))
    if w:
        return {w}
    if fallible:
        w = pick(lambda i: i.covers(kind, False))
        if w:
            return {w}
    if kind in INTO_OF:
        ik = INTO_OF[kind]
        a = pick(lambda i: i.covers(ik, fallible))
        if fallible:
            b = pick(lambda i: i.covers(ik, False))
            if a and b:
                return {a, b}  # the statement leaves this order open
            if a or b:
                return {a or b}
        elif a:
            return {a}
    return {None}


def gen_set(g, cps, names, ghosts=True, maxn=5):
    taken = set()
    out = []
    for _ in range(g.r.randint(1, maxn)):
        nm = g.pick(names + (list(GHOSTS) if ghosts and g.chance(0.25) else []))
        c = g.pick([None, None] + cps)
        mi = MI(nm, c, g.mark())
        if mi.slots & taken:
            continue
        taken |= mi.slots
        out.append(mi)
    g.r.shuffle(out)
    return out


def type_attrs(cps, enum=False):
    at = []
    for c in cps:
        at.append(Instr("map", "trait", ty=c, hint=None, err=None, params=[]))
        at.append(Instr("try_map", "trait", ty=c, hint=None, err="E" + c, params=[]))
        if not enum:
            at.append(Instr("into_existing", "trait", ty=c, hint=None, err=None, params=[]))
            at.append(Instr("try_into_existing", "trait", ty=c, hint=None, err="E" + c, params=[]))
    return at


def build(level, cps, mis):
    """render the member under test with the instruction set"""
    def minstr(mi):
        if mi.ghost:
            return Instr(mi.name, "ghost", container=mi.container, action=f"k{mi.n}()", braced=True)
        if level == "variant":
            return Instr(mi.name, "map", container=mi.container, member=f"M{mi.n}", action=None)
        return Instr(mi.name, "map", container=mi.container, member=f"m{mi.n}", action=f"k{mi.n}(~)")
    attrs = [minstr(m) for m in mis]
    if level == "field":
        it = Item("struct", "S", shape="named", attrs=type_attrs(cps))
        it.fields = [Field("pre", "i32"), Field("m", "i32", attrs), Field("post", "i32")]
    elif level == "vfield":
        it = Item("enum", "S", attrs=type_attrs(cps, enum=True))
        it.variants = [Variant("U"), Variant("V", "named", [Field("pre", "i32"), Field("m", "i32", attrs), Field("post", "i32")])]
    elif level == "variant":
        it = Item("enum", "S", attrs=type_attrs(cps, enum=True))
        it.variants = [Variant("U"), Variant("V", "named", [Field("x", "i32")], attrs), Variant("W", "tuple", [Field(None, "u8")])]
    else:  # parent entry
        it = Item("struct", "S", shape="named", attrs=[a for a in type_attrs(cps) if not a.name.startswith("try")])
        ents = " ".join(f"[{m.name}(m{m.n}, k{m.n}(~))]" for m in mis)
        it.fields = [Field("pre", "i32"), Field("p", "P", [Instr("parent", "parent", container=None, fields=f"{ents} x, y")])]
    return it


def markers(body):
    return {int(t[1:]) for t in body if re.match(r"^[kmM][0-9]+$", t)}


def impls_of(tokens):
    res = {}
    for h, b in common.split_items(tokens):
        info = common.header_info(h)
        if not info.get("ok"):
            continue
        kind = {"from_owned": "from_owned", "from_ref": "from_ref", "into_owned": "owned_into", "into_ref": "ref_into",
                "into_existing_owned": "owned_into_existing", "into_existing_ref": "ref_into_existing"}[info["kind"]]
        res[(kind, info["fallible"], xform.cpkey(info["counterpart"]))] = (h, b)
    return res


def expected_markers(level, winners, kind):
    opts = []
    for w in winners:
        if w is None:
            opts.append(set())
        elif w.ghost:
            if level == "variant":
                opts.append(set() if kind.startswith("from") else {w.n})
            else:
                opts.append({w.n} if kind.startswith("from") else set())
        else:
            opts.append({w.n})
    return opts


def run(tier):
    ck = common.Check("C05", tier)
    ck.rule = ("one member (struct field / variant field / variant / [..] entry of #[parent(..)]) carrying a random slot-disjoint set of the 21 mapping names x {default, dedicated A, "
               "dedicated B} + ghost/ghost_owned/ghost_ref, all 12 kinds requested for A and B; (1) the markers on the member's line in each impl must be exactly those of the "
               "instruction the statement's chain selects; (2) adding one more instruction changes only the impls whose predicted winner changes. distinct_nontrivial = distinct "
               "(level, sorted (name, dedication) set) with >=2 instructions applicable through different chain levels.")
    g = xgen.G(common.rng_for("C05", tier))
    n = 1500 if tier == "quick" else 40000
    cps = ["A", "B"]
    cases = []
    for i in range(n):
        level = g.pick(["field", "field", "vfield", "variant", "parent"])
        if level == "parent":
            names = [x for x in MAP_NAMES if not is_fallible_name(x)]
            mis = []
            taken = set()
            for _ in range(g.r.randint(1, 4)):
                mi = MI(g.pick(names), None, g.mark())
                if mi.slots & taken:
                    continue
                taken |= mi.slots
                mis.append(mi)
            extra = MI(g.pick(names), None, g.mark())
            if extra.slots & taken:
                extra = None
        else:
            names = MAP_NAMES if level == "field" else [x for x in MAP_NAMES if "existing" not in x]
            mis = gen_set(g, cps, names)
            extra = None
            for _ in range(6):
                e = MI(g.pick(names + list(GHOSTS)), g.pick([None] + cps), g.mark())
                if not any(e.slots & m.slots for m in mis):
                    extra = e
                    break
        cases.append((level, mis, extra))
    srcs = []
    for level, mis, extra in cases:
        srcs.append(build(level, cps, mis).render())
        pos = g.r.randint(0, len(mis))
        srcs.append(build(level, cps, mis[:pos] + [extra] + mis[pos:]).render() if extra else srcs[-1])
    for backend in ("s1", "s2"):
        outs = common.run_x(srcs, backend)
        for ci, (level, mis, extra) in enumerate(cases):
            o, o2 = outs[2 * ci], outs[2 * ci + 1]
            ck.count()
            key = [level, sorted((m.name, "ded" if m.container else "def") for m in mis)]
            src = srcs[2 * ci]
            if o["status"] != "ok":
                ck.cell(key, nontrivial=False)
                ck.violation(f"priority|not_accepted|{level}|{common.panic_sig(o) if o['status'] == 'panic' else o['status']}", dict(input=src, outcome=common.brief(o), backend=backend))
                continue
            im = impls_of(o["tokens"])
            depth = set()
            for (kind, fal, cp), (h, b) in im.items():
                cpn = {"A": "A", "B": "B"}[cp]
                if level == "parent":
                    winners = predict_parent(mis, kind)
                else:
                    winners = predict(mis, kind, fal, cpn)
                got = markers(b)
                opts = expected_markers(level, winners, kind)
                lv = chain_level(mis, winners, kind, fal, cpn) if level != "parent" else "p"
                depth.add(lv)
                if got not in opts:
                    wn = sorted((w.name + ("|" + w.container if w.container else "")) if w else "none" for w in winners)
                    gotn = sorted(next((m.name + ("|" + m.container if m.container else "") for m in mis if m.n == x), "?") for x in got)
                    ck.violation(f"priority|{level}|{kind}{'/try' if fal else ''}|expected:{','.join(wn)}|got:{','.join(gotn) or 'none'}",
                                 dict(input=src, impl=common.detok(list(h) + list(b))[:900], kind=kind, fallible=fal, counterpart=cpn, expected=wn, got=gotn, backend=backend))
            ck.cell(key, nontrivial=len(depth - {"none"}) >= 2)
            # (2) non-interference
            if extra and o2["status"] == "ok":
                im2 = impls_of(o2["tokens"])
                allm = mis + [extra]
                for k3, (h, b) in im.items():
                    kind, fal, cp = k3
                    if level == "parent":
                        w1, w2 = predict_parent(mis, kind), predict_parent(allm, kind)
                    else:
                        w1, w2 = predict(mis, kind, fal, cp), predict(allm, kind, fal, cp)
                    if w1 == w2 and len(w1) == 1 and k3 in im2 and im2[k3] != (h, b):
                        ck.violation(f"priority|interference|{level}|{kind}{'/try' if fal else ''}|added:{extra.name}{'|ded' if extra.container else ''}",
                                     dict(input=src, with_extra=srcs[2 * ci + 1], impl_before=common.detok(list(h) + list(b))[:700], impl_after=common.detok(list(im2[k3][0]) + list(im2[k3][1]))[:700], backend=backend))
            elif extra and o2["status"] != "ok":
                ck.violation(f"priority|extra_instruction_rejected|{level}|{extra.name}", dict(input=srcs[2 * ci + 1], outcome=common.brief(o2), backend=backend))
            if len(ck.samples) < 3 and len(mis) >= 3:
                ck.sample(dict(input=src, backend=backend, winners={f"{k[0]}{'/try' if k[1] else ''}->{k[2]}": sorted(markers(v[1])) for k, v in list(im.items())[:8]}))
    if tier == "thorough":
        from vlib import cov
        cov.report(ck, "C05", srcs)
    return ck.finish()


def chain_level(mis, winners, kind, fal, cp):
    w = next(iter(winners))
    if w is None:
        return "none"
    if w.ghost:
        return "ghost"
    lv = "exact" if w.covers(kind, fal) else "infallible" if w.covers(kind, False) else "into"
    return lv + ("/ded" if w.container else "/def")


def predict_parent(mis, kind):
    for m in mis:
        if m.covers(kind, False):
            return {m}
    if kind in INTO_OF:
        for m in mis:
            if m.covers(INTO_OF[kind], False):
                return {m}
    return {None}
